#!/usr/bin/env python3
"""Runs the quick check of the attacked property against every validated seed (patch applied to /repo, reverted afterwards) and
writes seeded/<id>/meta.json."""
import json, os, subprocess, sys, re
sys.path.insert(0, "/verif")
from seeds_index import SEEDS  # noqa
def patch_of(d):
    """the change as ported to the current HEAD of /repo if the original no longer applies"""
    return d + "/patch-current.diff" if os.path.exists(d + "/patch-current.diff") else d + "/patch.diff"

NEEDS = {
 "a04": "interleaving: a resync pass reads its checklist, then the old incarnation's unbind and the same-named replacement's bind run, then resync handles the stale entry",
 "a05": "fault: the 2nd or later FloatingIP creation of a multi-range allocation fails",
 "a07": "interleaving: pool pre-allocation (POST /v1/pool) counts, a filter of a pool pod allocates, pre-allocation continues",
 "a09": "ordering: an administrator's labelled FloatingIP exists but its watch event has not been delivered when a pod is allocated in that subnet",
 "b02": "multi-step: never/immutable pod deleted (IP reserved), restart or reload, resync before the replacement binds",
 "b03": "multi-step: immutable deployment with >=2 replicas, one IP reserved, scale down, unbind of another pod",
 "b06": "multi-step + topology: pools sharing a pod subnet with different node subnets, IP held, restart/reload, pod scheduled again",
 "b08": "fault: the 3rd (or later) creation of a >=3-range allocation fails; only the store shows the leftover",
 "b10": "fault + retry: provider AssignIP fails cleanly, Bind retried for the same pod on the same node",
 "b11": "input: listed IPs of mixed string length across more than one page, sorted by IP",
 "c07": "interleaving: filters of pods of two deployments sharing a sized pool overlap between count and allocate",
 "c12": "fault: DEL of a plugin at index >=1 fails for a pod with >=2 networks (kubelet DEL or ADD rollback)",
 "c13": "input: pod with >=2 IPs from pools with different VLAN ids",
 "c14": "input + state: full synchronisation with an empty port list while stale KUBE-HP chains exist",
 "c15": "input + state: duplicate member in a desired ipset (two peers selecting the same pod) while a stale member exists",
 "c16": "multi-step: ipBlock with except, rules synced an even number of times",
 "c17": "input: container whose runtime status is paused/restarting/created",
 "c20": "input: gateway outside the declared subnet with ranges inside the declared subnet",
}

NEEDS.update({
 "d01": "interleaving: a resync pass snapshots its checklist, the pod is deleted+unbound and a same-named replacement gets the same IP back, then the pass reaches the stale entry",
 "d02": "multi-step + topology: app holds >=2 reserved IPs from pools with different node subnets when a replacement pod is filtered",
 "d03": "input + multi-step: pod with pool annotation AND release-policy immutable; workload deleted/scaled down, then pod deleted (or lost event + resync)",
 "d05": "fault: a FloatingIP create other than the first of a multi-range allocation fails (first created object is not rolled back)",
 "d08": "fault: 2nd or later create of a multi-range allocation fails; memory keeps the earlier IPs, retried Bind fails",
 "d09": "topology + reload: allocation in a pool that is not the first of several pools sharing one pod subnet, then any reload/restart",
 "d10": "ordering: pod re-created on another node, Bind of the new pod handled before the old pod's delete event (AssignIP before the uid guard)",
 "d11": "input: pod without owner references that carries a pool annotation",
 "d12": "interleaving: two containers inside saveNetworkInfo at the same time (shared temp file name)",
 "d13": "input: pod with >=2 IPs where an untagged (vlan 0) IP follows a tagged one",
 "d14": "fault: opening a host port other than the first fails (earlier sockets leak; ports already held by the pod are closed)",
 "d15": "multi-step: ipBlock with except, second sync on converged state (nomatch member deleted every other sync)",
 "d17": "fault + mode: containerd/CRI mode, status call of a live sandbox fails with a non-NotFound code whose message contains 'not found'",
 "d18": "input + follow-up: Running pod whose args annotation carries an IP outside the configured pool (read lock leaked), then any write operation",
 "d19": "interleaving: Bind onto a node whose subnet is not cached (restart/reload between filter and bind) concurrent with Filter of another pod",
 "d20": "input: multi-address range with exactly one end inside the pool subnet",
})

NEEDS.update({
 "e01": "topology + restart: pool whose gateway is numerically above some of its IPs, IP of a live pod, then restart/reload, then another pod scheduled",
 "e03": "multi-step: immutable deployment, one IP parked on the app prefix, then scale down and a second pod retired (event or resync)",
 "e04": "interleaving (4 actors): old pod's unbind holds the pod lock, API release accepted while the pod cache lacks the replacement, cache sync, replacement's Bind queues before Release on the lock",
 "e05": "fault: API error on the update inside ReserveIP (memory already changed)",
 "e06": "same source change as d08 (cache synced per created object; rollback leaves memory behind); stated against C06 but needs an API fault, which C06 does not quantify over",
 "e07": "input: Pool object with size 0 (treated as 'no pool'), then pods scheduled; Bind allocates unchecked",
 "e09": "ordering: labelled FloatingIP exists in the store but its watch event has not arrived (create tolerates AlreadyExists)",
 "e10": "fault outside C10's quantifier: API error on UpdateAttr between AssignIP and the record of the node, pod deleted before the retry",
 "e12": "fault: two or more plugin DELs fail in one DEL, then the retry (order of the retried plugins)",
 "e14": "state: full sync while the KUBE-HP chain of a kept pod already exists with different rules",
 "e16": "input: one rule listing the same port number for TCP and UDP",
 "e19": "interleaving: CloseHostports of a pod without host ports concurrent with OpenHostports/CloseHostports of a pod with one",
})

NEEDS.update({
 "f11": "input: sort=ip desc over more than one page (comparator compares an element with itself)",
 "f12": "fault: plugin DEL fails at index >= 1 of a pod with >= 2 networks (failed list aliased onto the list being walked)",
 "f13": "sequence/interleaving: a pod with bound IPs is set up, then a pod without args annotation (shared args map)",
 "f14": "input + multi-step: port with hostIP, full sync (restart), then teardown",
 "f15a": "input: pod address changes to one that is a textual prefix of the old one (10.0.0.12 -> 10.0.0.1)",
 "f15b": "event: pod update with unchanged address that changes set membership (relabel into target / peer)",
 "f16a": "policy shape + event: peer with namespaceSelector AND podSelector, pod event for a pod in a selected namespace not matching the podSelector",
 "f16b": "input: same port number for TCP and UDP in one rule (same as e16, different edit)",
 "f17": "input: docker mode, ip file in CRLF two-line form for a running container",
 "f20": "input: nodeSubnets listing one network twice with different host bits",
})

NEEDS.update({
 "g02a": "input: statefulset/CRD pod carrying the ip-pool annotation, deleted (event handled) and re-created",
 "g02b": "multi-step + topology: deployment with >= 2 IPs in reserve lying in different node subnets, then a replacement pod",
 "g05": "fault: delete of a later entry fails inside a multi-entry ReleaseIPs (memory update postponed and skipped)",
 "g06": "input: >= 3 requested range lists, the first ones in pools without a common node subnet (reverts fix a2923b4)",
 "g08": "input + state: a requested range without held IP precedes a range in which the pod already holds an IP",
 "g10": "fault: UnAssignIP fails once during a resync pass (release/reserve goes on anyway)",
 "g18": "input: GET /v1/ip with an unknown sort value and >= 2 matching IPs (nil comparator)",
 "g19": "interleaving: configuration reload with changed content concurrent with a node-subnet cache miss in filter/bind",
})

NEEDS.update({
 "h01": "input: a pod key that is a string prefix of another live pod's key (ReserveIP matches by prefix)",
 "h03": "fault: the replica lookup of a scalable custom-resource app fails (not NotFound) when an immutable pod is retired",
 "h05": "crash: the process stops between the two writes every allocation now needs (bare object created, not yet filled)",
 "h07": "multi-step: pool filled, size lowered below the number of IPs in use, one more pod filtered",
 "h09": "interleaving: an allocation or release arrives while ConfigurePool's list request is in flight (read lock, then write lock)",
 "h12": "fault: two plugin DELs fail in one DEL, then the retry (order) - same effect as e12, different edit",
 "h14": "multi-step: a random-port pod is set up a second time without a teardown in between",
 "h17": "state: dead container whose port file is corrupt (port clean-up keeps failing, state files never removed)",
})

NEEDS.update({
 "i02": "fault: the store delete inside the administrator's release fails after memory already freed the IP; then the pod returns",
 "i04": "interleaving: stale-event check of pod-IP sync done before the pod lock; old pod unbound and replacement bound in the window",
 "i06": "topology + reload: pools sharing a subnet with interleaved ranges (a range of B inside a gap of A), IP of B allocated, reload",
 "i11": "input: posted entry whose key is a string prefix of the IP's current owner key (stale list page / ordinals 1 vs 10)",
 "i13": "input: pod with two networks (common args attached to the first network only, args no longer carried forward)",
 "i15": "input/state: foreign ipset named ip-*, sip-*, snet-*, dip-*, dnet-* (ownership test strips an absent prefix)",
 "i16": "input: policy without policyTypes carrying egress rules only",
 "i18": "input: CNI_ARGS entry without '=' (trailing ';', bare flag, empty string)",
 "i19": "interleaving: metrics scrape overlapping a reload that changes the number of pools",
 "i20": "input: last range ends exactly one address after the pool subnet",
})
NEEDS.update({
 "j01": "interleaving: the release API (locking the wrong pod key) has checked that no such pod runs, then the controller creates the next incarnation and it is bound with the reserved IP, then the release goes on",
 "j03": "multi-step: pool pod running, its allocation lost (reload drops and restores the range), pod-IP sync re-adopts it with the wrong stored policy, pod goes away, resync decides",
 "j04": "interleaving: unbind of a late event takes its snapshot before the pod lock; the successor is bound in the window",
 "j07": "fault + state: sized pool whose used+reserved IPs equal its size; the take-over of a reserved IP during filter fails with an API error",
 "j08": "fault: the 2nd or later FloatingIP deletion of a multi-IP release fails; retries then never update the tables",
 "j09": "ordering + fault: an administrator's labelled FloatingIP exists unseen; a multi-range allocation picks that IP, the create fails with AlreadyExists and the rollback deletes the administrator's object",
 "j10": "fault: cloud provider UnAssignIP fails for one IP of a multi-IP key and succeeds for a later one, in resync or the release API",
 "j17": "input: dead container whose port file is truncated / not JSON, so the port clean callback fails every round",
 "j18": "multi-step: a stale policy chain still referenced by a pod chain (policy vanished unseen), then a periodic sync",
 "j19": "interleaving: first request for a network defined only in the network conf dir, concurrent with any other CNI request",
})
NEEDS.update({
 "k02": "state: sized pool (Pool object) with a reserved IP under the pool prefix and room left; a replacement pod is filtered",
 "k05": "ordering: a labelled (reserved) FloatingIP object exists whose add event has not been handled when that very IP is allocated",
 "k06": "topology + state: deployment/pool holds reserved IPs in pools with different node subnets; first filter of a replacement, bind on a node of the other subnet",
 "k11": "input: owner kind of a custom resource ending in 's' / 'ss' (Process, Ingress, Redis); list then release through the API",
 "k12": "fault x2: plugin i fails during ADD and the DEL of an earlier plugin fails during the rollback; then kubelet's DEL",
 "k13": "input: the pod handed to Bind already carries common.ipinfos in its args annotation (created from the manifest of a bound pod)",
 "k14": "state + restart: a host-port pod that is terminating (deletion timestamp, sandbox alive) when the daemon restarts",
 "k15": "missed event + state: a policy-selected pod vanished from this node unseen and a pod of the same name runs on another node",
 "k16": "input: egress rule with a podSelector-only peer, a same-labelled pod in another namespace",
 "k20": "fault or input + repetition: a configmap text that decodes but ConfigurePool refuses (null entry, or the store list fails), polled again",
})
NEEDS.update({
 "l01": "fault + repetition: a second Bind of a pod that is already bound (the API answers 409 Conflict), then the queued release runs",
 "l03": "multi-step: never/immutable allocation, restart or reload (memory rebuilt from the store), pod absent, resync",
 "l04": "input: index-named app with members x-1 and x-10 (one key is a string prefix of the other); the shorter-named pod goes away while the longer-named one lives",
 "l07": "input: a Pool object of size 0 (created so, or shrunk to freeze the pool)",
 "l08": "fault: a FloatingIP create answers AlreadyExists (somebody else's object) in the middle of a multi-range allocation",
 "l09": "fault: the store create inside AllocateInSubnet fails (AlreadyExists of an unseen reservation, or any error) - memory was updated first",
 "l10": "interleaving: release API (locking the wrong pod key) overlaps the Bind of the recreated pod, cloud provider configured",
 "l17": "fault: one iptables error inside the port-mapping cleanup of a DEL / GC callback; the port file is removed first, so no retry can clean the rules",
 "l18": "interleaving: Filter of a pod with (wide) ip ranges holds the IPAM read lock, a writer queues, the request re-enters the read lock",
 "l19": "interleaving: a lookup of a cached custom-resource kind reads the map without the lock while a lookup of an uncached kind rewrites it",
})
NEEDS.update({
 "m02": "multi-step: never/immutable allocation, reload or restart (memory rebuilt from the store), pod goes away, resync, next incarnation",
 "m05": "multi-step: an allocation with node/uid recorded is later cleared by a reserve (unbind/resync of a never/immutable pod); memory vs store, or a restart",
 "m06": "interleaving + input: a reload that changes the CIDR of a node's subnet (e.g. /24 -> /25) while a Filter/Bind for that node runs between the cache reset and ConfigurePool",
 "m11": "input: one release request with >=2 entries, an explicit non-statefulset appType first and a statefulset entry with appType omitted after it",
 "m12": "fault x2: a DEL in which an even number (>=2) of plugin DELs fail, then the retried DEL (order of the retried plugins)",
 "m13": "multi-step: pod holds an IP, the pool's gateway/VLAN/mask are changed by a configuration reload (ranges kept), the IP is reported again at a later bind",
 "m14": "fault: SetupPortMapping fails after it partly applied (n-th KUBE-HOSTPORTS append) - the port file is not written yet, so the cleanup finds nothing",
 "m15": "state: a local pod with a chain from an earlier sync, now without an address and no longer selected by any policy, at a full sync",
 "m16": "input: peer with namespaceSelector AND a podSelector that uses matchExpressions; a pod matching the matchLabels part only",
 "m20": "input: a range string with a second '~' (a~b~c, a~b~, a~b~garbage)",
})
NEEDS.update({
 "n01": "interleaving: the release API has been told by the API server that no such pod exists (pod lock not taken yet); the next incarnation is created and bound; the release goes on",
 "n03": "interleaving: resync snapshots its checklist, the old incarnation is unbound and the same-named replacement bound with the same IP, then resync uses the SNAPSHOT's uid/node",
 "n04": "state after a leader change: the pod cache (served from a lagging watch cache) shows the previous incarnation while the store records the new one; resync or an API release decide",
 "n07": "input: a Pool object of size 0 (created so, or resized to 0 while deployments sharing it have pending pods)",
 "n08": "state: the pod already holds IPs in >=2 requested ranges whose pools have different node subnets (re-bind after a failed binding); filter",
 "n09": "interleaving: the administrator's release has deleted the object and not yet updated the cache when a reload without that IP rebuilds the tables",
 "n10": "fault + retry on another node: AssignIP fails cleanly, the scheduler retries the pod on a different node of the same subnet, later unassign goes to the wrong node",
 "n17": "input: dead container whose port file is truncated, so the clean callback fails every round (same idea as j17)",
 "n18": "input: GET /v1/ip with a page so large that page*size wraps to a negative number",
 "n19": "interleaving: a second policy sync reuses the backing array readers are still walking after they released the lock",
})
NEEDS.update({
 "o02": "interleaving + lag: the periodic resync runs between the replacement's filter and its bind while the pod cache does not have the pod yet",
 "o05": "multi-step: never/immutable allocation, restart or reload (memory rebuilt from the store) - same edit as l03/m02",
 "o06": "state: a deployment/pool holds reserved IPs in pools with different node subnets, the newest one outside the subnet filter picked; map iteration order",
 "o11": "input: a pod without owner references (NULL key); its listed entry posted back as listed",
 "o12": "fault x2: an even number of plugin DELs fail in one DEL, then the retried DEL (same edit as m12)",
 "o13": "input: a multi-range request whose ranges resolve to different pools (different mask/gateway/VLAN) behind one node subnet",
 "o14": "multi-step: random-port pod, sandbox re-created (DEL + ADD for the same pod object) - the annotation keeps the first ports; then a daemon restart",
 "o15": "prior kernel state: GLX-INGRESS and GLX-EGRESS exist but the jumps from the built-in chains are missing",
 "o16": "input: a rule with a present but empty from/to list (Go-built object)",
 "o20": "input: a range ending exactly at 255.255.255.255 (Contains wraps)",
})
NEEDS.update({
 "p01": "interleaving: unbind of a late event looks at the key before taking the pod lock (same edit as j04)",
 "p03": "state: a pod that FINISHED (Succeeded/Failed, object stays) whose IP records its uid, the finish event lost or its unbind given up; resync or API release",
 "p04": "interleaving: release API decides 'no such pod' before taking the pod lock (same edit as n01)",
 "p07": "interleaving + lag: resync (or an API release) between the filter and the bind of a sized-pool pod while the pod cache lacks the pod (same edit as o02)",
 "p08": "input: a requested range list with several entries whose first entry is a single address that the pod does not get",
 "p09": "input + event path: an administrator reservation with a pod-shaped key and policy never arriving by watch event (policy lost), then resync",
 "p10": "interleaving: release API (locking the wrong pod key) overlapping the Bind of the same pod, provider configured (same edit as j01)",
 "p17": "state: only the port file of a dead container is left (or the callback failed in the earlier passes): the file is removed before the callback reads it",
 "p18": "input: a policy whose rule has only ipBlock peers, then a pod event for a pod of the policy's namespace",
 "p19": "interleaving: the list API walks the labels of a listed reserved entry while the reservation is withdrawn (labels map mutated in place)",
})
NEEDS.update({
 "q02": "fault + timing: the pod is deleted while its bind is in flight (pods/binding answers NotFound); the queued release event has lost the policy annotation",
 "q05": "interleaving: resync uses the snapshot's uid after re-reading the IP (same edit as n03)",
 "q06": "input: index-named app with members x-1 and x-10; a lookup by key matches by prefix",
 "q11": "state + paging: more than one page, pods of mixed liveness at the same offset of different pages",
 "q12": "input: the first entry of the networks annotation names an interface (net-a@net9), or kubelet names the interface something else than eth0",
 "q13": "stale read: the daemon's pod GET answered from a lagging watch cache (resourceVersion=0) that still holds the pre-bind pod or the previous incarnation",
 "q14": "input: the same host port number mapped for TCP and UDP by one pod",
 "q15": "event order + cache ahead: a policy updated and another deleted, the update handled first while the lister already shows both changes",
 "q16": "interleaving: a pod update event handled between the pod listing and the iptables-save of the stale pod-chain cleanup of a full sync",
 "r01": "fault + multi-step: a FloatingIP creation fails inside AllocateInSubnet, the free entry keeps the pod's key and uid; the pod is re-created under the same name; a resync pass",
 "r03": "input: a statefulset whose spec.replicas field is unset (= 1) with an immutable pod 0",
 "r04": "fault + repeat: the bind verb is repeated for a bound pod and the API server answers 409 Conflict",
 "r07": "start-up: Pool objects exist, the initial list of pools is slow, filter and bind requests arrive right after start",
 "r08": "config shape + multi-step: two pools share a pod subnet with different node subnets; the pod holds an address of the second; restart or reload; filter and bind again",
 "r09": "multi-step: an address of a running pod is removed from the configuration (pool kept); the pod-IP sync re-creates its record",
 "r10": "multi-step: the record of a running pod's address disappears (removed from the configuration and put back), the pod-IP sync re-creates it, the pod is deleted",
 "r17": "multi-round: a container judged dead in one GC round is started again (or the runtime goes down) and its state files are back in the next round of the same GC instance",
 "r18": "fault: the list of FloatingIP objects inside ConfigurePool (configuration reload) fails",
 "r19": "concurrency + state: a policy that still selects a local pod is deleted (its chain is kept for a second sweep) while another sync pass runs",
 "s02": "interleaving: an immutable deployment holds replicas+1 addresses (scale-down) and the delete events of two of its pods are handled at the same time",
 "s05": "config shape + restart: an address of the second of two pools sharing one pod subnet is held when the tables are rebuilt from the store",
 "s06": "input: a candidate node whose status lists more than one InternalIP (dual-stack: the IPv6 one after the IPv4 one)",
 "s11": "boundary: the number of listed addresses is not a multiple of the page size and a page behind the last one is requested",
 "s12": "multi-step in one process: a pod with a common key in its args annotation, then a pod whose annotation lacks that key (package-level decode target)",
 "s13": "config shape + restart: a pool's range lies in the gap between two ranges of an earlier pool of an enclosing or shared subnet; the tables are rebuilt",
 "s14": "interleaving: the teardown of a pod is overlapped by the set-up of its successor under the same name",
 "s15": "start-up timing: the first policy arrives while the namespace informer has not synced yet (real lazily started informers)",
 "s16": "fault or foreign change: the jumps from FORWARD/INPUT/OUTPUT are missing while GLX-INGRESS/GLX-EGRESS exist (failed first sync, external flush)",
 "s20": "mixed encodings: RemoveIP of a range end given as a 4-byte address, or of an end an earlier RemoveIP has moved",
 "t01": "lifecycle: a bound pod is deleted gracefully (deletion timestamp set, still running) and the update event, a resync pass or the release API looks at it",
 "t04": "config shape + reload: a live pod holds an address of the second of two pools sharing one pod subnet when the configuration is reloaded",
 "t09": "fault + retry: the list of FloatingIP objects fails inside the first reload to a changed configuration; the retry must still apply it",
 "t12": "crash: the daemon dies while writing a container's state file (the record is cut short); DEL, then DEL again",
 "t13": "input outside the domain: the runtime's CNI_ARGS already carry an ipinfos entry",
 "t16": "multi-step + value relation: a selected pod is re-addressed to an address whose text is a prefix of the old one (10.0.0.12 -> 10.0.0.1)",
 "t17": "input: a dead container whose port file lists the same host port number for tcp and udp",
 "t18": "input (hash coincidence): a deployment pod whose pod lock key and deployment lock key fall into the same slot of a 500000-slot hashed mutex",
 "t19": "concurrency + input: two ADD requests of pods with >= 2 networks from the json configuration in flight at once",
 "t20": "config shape + reload: a stored address inside a pool's subnet but outside its ranges (shrunk ranges, or the second pool of a shared subnet)",
 "q20": "multi-step: remove an address from the last range of a pool and insert it back (tryMerge at the tail)",
})
OTHER = {'t01': ['C04'], 't16': ['C15'], 't17': ['C14'], 't20': ['C09', 'C06'], 's02': ['C03'], 's13': ['C06', 'C09'], 's16': ['C15'], 'r01': ['C05', 'C04'], 'r08': ['C06'], 'r18': ['C09'], 'q02': ['C03'], 'q05': ['C04'], 'q06': ['C04', 'C01'], 'p07': ['C02'], 'p01': ['C04'], 'n03': ['C04'], 'n01': ['C04'], 'n08': ['C06'], 'm06': ['C09'], 'm02': ['C03'], 'l17': ['C14'], 'l08': ['C09'], 'l10': ['C04'], 'l01': ['C04'], 'k20': ['C09'], 'k02': ['C07'], 'k05': ['C09'], 'j08': ['C05'], 'j01': ['C04'], 'b02': ['C03', 'C05'], 'a04': ['C10'], 'd02': ['C06'], 'd09': ['C05', 'C06'], 'e06': ['C08', 'C05'], 'e01': ['C09', 'C05'], 'e10': ['C04'], 'e04': ['C01'], 'f13': ['C12'], 'd01': ['C04'], 'i02': ['C05'], 'i06': ['C09', 'C05'], 'i04': ['C01'], 'g02b': ['C06'], 'g10': ['C04'], 'g19': ['C06'], 'f16a': ['C15'], 'f15b': ['C16']}
only = sys.argv[1:]
for sid, (prop, pkg) in SEEDS.items():
    if only and sid not in only: continue
    d = "/verif/seeded/" + sid
    if os.path.exists(d + "/NOT-PORTABLE.md"):
        print(sid, "skipped: not portable to the current HEAD, see NOT-PORTABLE.md"); continue
    # the change is applied in a scratch worktree and handed to the check as a build overlay: /repo itself is never touched
    wt = "/tmp/so_" + sid
    subprocess.run(["git", "-C", "/repo", "worktree", "remove", "--force", wt], stdout=subprocess.DEVNULL, stderr=subprocess.DEVNULL)
    subprocess.check_call(["git", "-C", "/repo", "worktree", "add", "-q", "--detach", wt, "HEAD"])
    also = {}
    try:
        subprocess.check_call(["git", "-C", wt, "apply", patch_of(d)])
        changed = subprocess.run(["git", "-C", wt, "diff", "--name-only"], stdout=subprocess.PIPE, text=True).stdout.split()
        ov = wt + "/overlay.json"
        json.dump({"Replace": {"/repo/" + f: wt + "/" + f for f in changed}}, open(ov, "w"))
        p = subprocess.run(["/verif/vcheck", prop, "--no-evidence", "--overlay", ov], stdout=subprocess.PIPE, stderr=subprocess.STDOUT, text=True)
        for other in OTHER.get(sid, []):
            q = subprocess.run(["/verif/vcheck", other, "--no-evidence", "--overlay", ov], stdout=subprocess.PIPE, stderr=subprocess.STDOUT, text=True)
            mm = re.search(r"failure \[([^\]]+)\]", q.stdout)
            also[other] = {"exit": q.returncode, "signature": mm.group(1) if mm else None}
    finally:
        subprocess.run(["git", "-C", "/repo", "worktree", "remove", "--force", wt], stdout=subprocess.DEVNULL, stderr=subprocess.DEVNULL)
    m = re.search(r"failure \[([^\]]+)\]: (.*)", p.stdout)
    val = json.load(open(d + "/validation.json")) if os.path.exists(d + "/validation.json") else {}
    meta = {"seed": sid, "breaks_property": prop, "needs_to_manifest": NEEDS.get(sid, ""), "demonstration": [f for f in os.listdir(d) if f.endswith("_test.go")],
            "demonstration_package": pkg, "validated_in_scratch_worktree": val.get("valid"), "validation_run": val.get("run"),
            "detected_by": {"check": prop, "tier": "quick", "exit": p.returncode, "signature": m.group(1) if m else None, "message": (m.group(2)[:300] if m else None)},
            "also_checked": also,
            "ran": "python3 tools_seed_sweep.py %s   (the patch is applied in a scratch worktree and passed to ./vcheck %s as a go build overlay; equivalent to: git -C /repo apply seeded/%s/patch.diff && ./vcheck %s ; git -C /repo checkout -- .)" % (sid, prop, sid, prop)}
    json.dump(meta, open(d + "/meta.json", "w"), indent=1)
    print(sid, prop, "exit", p.returncode, m.group(1) if m else "-")
