#!/usr/bin/env python3
"""tools_mutant.py <repo-relative-file> <old> <new> -- <vcheck args...>
Builds a one-line mutant of a /repo source file as a `go test -overlay` file (never touching /repo) and runs vcheck on it."""
import sys, os, json, subprocess, tempfile
i = sys.argv.index("--")
f, old, new = sys.argv[1:4]
src = open(os.path.join("/repo", f)).read()
if src.count(old) != 1:
    print("pattern occurs %d times" % src.count(old)); sys.exit(2)
d = tempfile.mkdtemp(prefix="mut-", dir="/dev/shm")
mf = os.path.join(d, os.path.basename(f))
open(mf, "w").write(src.replace(old, new))
ov = os.path.join(d, "overlay.json")
json.dump({"Replace": {os.path.join("/repo", f): mf}}, open(ov, "w"))
rc = subprocess.call(["/verif/vcheck"] + sys.argv[i+1:] + ["--overlay", ov, "--no-evidence"])
import shutil; shutil.rmtree(d, ignore_errors=True)
sys.exit(rc)
