"""Index of the seeded changes kept under /verif/seeded: id -> (property attacked, package of the demonstration test)."""
SEEDS = {
 "a04": ("C04", "pkg/ipam/schedulerplugin"), "a05": ("C05", "pkg/ipam/floatingip"), "a07": ("C07", "pkg/ipam/api"),
 "a09": ("C09", "pkg/ipam/floatingip"), "b02": ("C02", "pkg/ipam/schedulerplugin"), "b03": ("C03", "pkg/ipam/schedulerplugin"),
 "b06": ("C06", "pkg/ipam/schedulerplugin"), "b08": ("C08", "pkg/ipam/floatingip"), "b10": ("C10", "pkg/ipam/schedulerplugin"),
 "b11": ("C11", "pkg/ipam/api"), "c07": ("C07", "pkg/ipam/schedulerplugin"), "c12": ("C12", "pkg/api/cniutil"),
 "c13": ("C13", "cni/ipam"), "c14": ("C14", "pkg/network/portmapping"), "c15": ("C15", "pkg/policy"), "c16": ("C16", "pkg/policy"),
 "c17": ("C17", "pkg/gc"), "c20": ("C20", "pkg/ipam/floatingip"),
}
