# Per-property configuration of the vcheck driver: engine package, test function, tier sizes, evidence texts.
CHECKS = {
    "C20": {
        "pkg": "codec", "test": "TestC20", "level": "exploration", "hang_is_violation": True,
        "quick": {"checks": 6000, "timeout": 600},
        "thorough": {"checks": 640000, "shards": 16, "timeout": 1500},
        "rule": "rapid draws 1-3 pools from a set-of-uint32 model (prefix /1-/32, subnets touching 0.0.0.0 and "
                "255.255.255.255, 1-4 ranges with gaps>=2, routableSubnet/nodeSubnets with duplicates and host bits), renders "
                "them to configuration JSON text and (1 case in 3) mutates one pool into an invalid one (outside subnet, "
                "unsorted, overlapping, adjacent, reversed, bad literal, a well-formed range followed by one more '~' segment, missing field, wrong JSON type); plus one range string "
                "a~b per case. Every accepted pool is also edited: one address (first, middle, last of every range) is removed and inserted again - the "
                "ranges must come back exactly and the pool in between must still round-trip. A quarter of the valid cases also goes through galaxy-ipam's configmap path on a simulated cluster: the text "
                "with a null entry in front (decodes, but ConfigurePool refuses it) must answer an error on EVERY poll and leave the configured "
                "IPs as they were, then the accepted text is applied and enumerates the model's IPs. Non-trivial = >=2 ranges, or a boundary address (x.x.x.0/255, 0.0.0.0, 255.255.255.255), or a "
                "mutated-invalid configuration; distinct by SHA-1 of the case.",
        "assumptions": ["IPv4 only; pod subnets other than 0.0.0.0/0", "gateway lies inside the pool's subnet (as in every documented configuration)",
                        "pools of one configuration do not overlap (documented requirement) when enumerated through IPAM"],
        "floors": {"valid": 0.3, "boundary_address": 0.05},
    },
}

HIST_ASSUME = ["fake API server (client-go object tracker) with the real pods/binding semantics re-implemented by the harness",
               "informer model: lister = prefix of truth history, handler notifications = prefix of lister history (FIFO)",
               "Bind is only issued after a successful Filter of the same pod incarnation, to a node Filter returned; one filter/bind request per pod at a time",
               "IPv4, DNS-1123 names; which free IP galaxy picks is left to the code (validity-predicate oracles)"]

ENUM = (" thorough additionally cuts one in 100 generated cases after its last concurrent episode (reduced to two operations) and enumerates "
        "EVERY scheduler decision sequence of that episode depth-first (world rebuilt per schedule, bound 1500 schedules per episode; "
        "coverage.extra reports episodes enumerated, schedules run and how many episodes were exhausted).")

def hist(test, rule, quick=2500, thorough=160000, floors=None, extra_assume=None, enum=False):
    d = {"pkg": "ipamsim", "test": test, "level": "exploration",
            "quick": {"checks": quick, "shards": 4, "timeout": 900},
            "thorough": {"checks": thorough, "shards": 16, "timeout": 2400},
            "rule": rule + (ENUM if enum else ""), "assumptions": HIST_ASSUME + (extra_assume or []), "floors": floors or {}}
    if enum:
        d["thorough"]["env"] = {"VERIF_ENUM_RATE": "100", "VERIF_ENUM_BOUND": "1500"}
        d["thorough"]["timeout"] = 3600
    return d

GEN = ("rapid draws a Case = generated topology (1-4 pools over 2-4 node subnets, rendered to the documented JSON text and loaded through "
       "the real decoder) + 1-3 workloads (statefulset, deployment, deployment with pool, scalable/non-scalable custom resource, bare pod; "
       "policies default/immutable/never) + a history of 15-60 operations with abstract picks (create/recreate-same-name/schedule=filter+bind/"
       "filter/bind/phase/graceful deletion begins (deletion timestamp on a bound pod that keeps running)/delete/deliver or drop informer event/run queued unbind/resync/pod-IP sync/scale/delete app/API release/pool API/"
       "reserve/restart/lister sync/quiesce, phrases of such ops, and concurrent episodes of 2-4 actors - requests, event handlers, "
       "resync, reload and the informer's cache update - interleaved by the cooperative scheduler at every lister/IPAM/API/provider "
       "call, with uniform, bursty, nested and lock-convoy schedule shapes); inside an episode a controller may CREATE the next incarnation "
       "of a pod and have it scheduled (newsched), an administrator may release an entry the list API shows as releasable, and event "
       "delivery / unbind may pick their target when they run; the scheduler can switch tasks after a FloatingIP write or a pod GET has "
       "been answered as well as before it is sent; a restart may come up with a pod cache that is as stale as - or a few updates staler "
       "than - its predecessor's (leader change served from a lagging watch cache); a quarter of the index-named apps are wide (members "
       "1, 10 and 11: one key is a string prefix of another); half of the histories draw operation and phrase kinds flat (weights mean "
       "what they say), half with rapid's small-index bias (creation-heavy); lister lag in 1/3 of the cases; multi-IP "
       "(request_ip_range) workloads in 1/4. ")

CHECKS.update({
    "C01": hist("TestC01", GEN + "Oracle after every op and every scheduler step: tables disjoint and = configured set, payloads of live "
                "bound pods pairwise disjoint, no live pod's IP owned by another pod key. Non-trivial = >=2 pods bound and (an IP changed "
                "owner, or an episode overlapped >=2 ops); distinct by SHA-1 of the case. A quarter of the histories carry one injected API error "
                "(internal/conflict/timeout on the k-th API call of a drawn op or episode); reloads and restarts are drawn; an IP an "
                "administrator de-configured while in use is exempt from then on.", quick=5000, floors={"two_pods_bound": 0.2, "same_name_recreated": 0.3}, enum=True),
    "C02": hist("TestC02", GEN + "Biased to immutable/never/pool workloads and delete/recreate/reschedule. Oracle per filter/bind: a pod "
                "whose key holds a reserved IP is only offered nodes routable for it and is bound with exactly that IP; a deployment/pool "
                "pod whose app prefix holds reserved IPs gets one of them. Non-trivial = a binding happened while a reservation for that "
                "identity existed.", quick=8000, floors={"same_name_recreated": 0.3}),
    "C03": hist("TestC03", GEN + "All three policies x all workload kinds with scale/app deletion/finished pods/dropped events, ending in "
                "quiesce. Oracle: reference model of doc/float-ip.md - no premature release at every unbind/resync evaluation, no leak at "
                "every quiescence (an allocation owned by the empty key counts as a leak). Up to two replica lookups of custom-resource apps fail "
                "with an internal error; one history in six starts with a story (an immutable deployment scaled from 3 to 2 while two of its pods go away, the two delete events handled concurrently under alternating, prefix and random schedules) and every unbind - alone or overlapping other unbinds - must leave an existing immutable deployment min(IPs held, replicas) IPs; a quarter of the statefulsets leave spec.replicas unset whenever they have one replica (galaxy-ipam reads that as 1; a deployment's field is dereferenced unconditionally - the API server defaults it - so it is never left out). Non-trivial = >=1 keep and >=1 release decision evaluated and a scale/app delete in the history.",
                quick=10000, floors={"keep_decision": 0.1, "release_decision": 0.1}),
    "C04": hist("TestC04", GEN + "Biased to same-name re-creation with late/duplicate unbind sources, resync, API release, reloads that keep "
                "the IP, pod-IP sync. Oracle after every op and scheduler step: every live bound pod's still-configured IP is allocated to "
                "its key, and the provider was not asked to unassign it. Non-trivial = a release path ran while a same-named replacement "
                "was live and bound. One injected API error in a quarter of the histories; a workload's pod template may change its "
                "request_ip_range between incarnations.", quick=7000, floors={"same_name_recreated": 0.3}, enum=True),
    "C10": hist("TestC10", GEN + "Recording cloud provider with cleanly failing calls. Oracle: per-IP state machine none|on(node) replayed "
                "over the call log after every op/step (no assign to a second node while assigned, live bound pod's IP on its node, free "
                "IP unassigned). Configuration reloads and pod-IP syncs are drawn too, and a third of the histories contain a story: an address is taken out of the configuration under a running pod and put back, the pod-IP sync re-creates its record from the pod, the pod is deleted (event handled, or missed and left to resync). An address de-configured while assigned is exempt (its record is deleted without a provider call, which no clause forbids) until the record of the very pod it was taken from is back or the address is assigned afresh. Non-trivial = a pod identity was bound on two different nodes or a provider call failed.",
                quick=5000, floors={"provider_call_failed": 0.05}),
})

CHECKS["C05"] = {"pkg": "ipamsim", "test": "TestC05", "level": "fault_enumeration",
    "quick": {"checks": 800, "shards": 4, "timeout": 900},
    "thorough": {"checks": 2400, "shards": 16, "timeout": 3000, "test": "TestC05All"},
    "rule": GEN + "Sequential histories (with reloads, API release, pool API, reservations and 0-2 reservation stories as in C09: an "
            "administrator's labelled object whose add/delete events arrive early, late or never). A fault-free run records galaxy-ipam's "
            "API-call trace; then the history is re-executed once per selected (op, call index) x {error, crash-before, crash-after} "
            "(quick: 4-10 generated indices per history; thorough: every index). Oracle: memory == store for every configured IP after "
            "every completed op (an entry of the free table that still reports a key counts as a disagreement: ByIP and ByPrefix answer from it), a restarted plugin reconstructs the same tables, and after a crash + restart + one resync + one pod-IP "
            "sync: ownership invariants, no leaked IP, every live bound pod owns its IP. Non-trivial = a fault index fell inside an op "
            "issuing >= 3 API calls; evaluations counts histories, coverage.extra counts fault runs and hits per call kind.",
    "assumptions": HIST_ASSUME + ["single fault per run; an erroring call has no effect (lost responses are not modelled)",
                                  "crash = the operation's goroutine ends at the call (runtime.Goexit), the plugin instance is discarded and a new one is built over the same store"],
    "allow_short": True, "floors": {"fault_hit": 0.3}}

CHECKS["C07"] = hist("TestC07", "rapid draws topologies, 1-3 deployments sharing named pools that have a Pool object of size 0-4, pods with unique names "
    "(deployment pods never reuse a name), and histories whose concurrent episodes run 2-3 of: Filter of different pods, schedule, "
    "POST /v1/pool with preAllocateIP, pool size update, unbind - interleaved by the cooperative scheduler at every lister/IPAM/API call; "
    "a quarter of the histories carry one failing API-server call (internal/conflict/timeout/already-exists) of one operation; the pod cache lags in a third of the cases. "
    "Oracle after every op and every scheduler step: #IPs keyed under pool__<name>_ <= max(count when the op/episode started, largest "
    "size in force in truth or lister during it, or since the successful filter of a pod of the pool whose bind is still to come - a scheduling attempt is filter + bind, and a pool without Pool object is capped by replicas, not by a size). One case in 40 is a start-up scenario instead of a history: a Pool object of size 0-2 and 1-4 pods of a deployment sharing it exist, galaxy-ipam is started the way server.Start does it (the real IPAMContext with its informers over fake clientsets whose initial list of one resource - pools, floatingips, pods, deployments, nodes - takes 150-300 ms, then the plugin), the pods are filtered and bound at once, and the pool must not hold more IPs than its size. Non-trivial = an episode in which >= 2 ops overlapped; distinct by SHA-1 of the case.",
    quick=5000, thorough=120000, floors={"episode_overlapped": 0.2, "pre_allocation": 0.1}, enum=True)
CHECKS["C09"] = hist("TestC09", GEN + "Sequences of 2-4 configurations (ranges shrink/grow/move, pools disappear, node subnets change), "
    "administrator reservations (labelled FloatingIP) whose watch event is delivered early/late/never, 0-2 reservation stories per history "
    "(reserve; add event before / after / never relative to the next scheduling, or across a reload; then the reservation is withdrawn "
    "with its delete event before / after the next scheduling, or across a reload), one failing API-server call in a quarter of the "
    "histories (a reload that failed is polled again, as the configmap loop does; objects of de-configured IPs whose deletion failed "
    "are leftovers by design until the next effective reload; mutated configurations may re-state the node subnets with a longer prefix, so a "
    "node's subnet is a different CIDR than before), a probe after every completed reload (a fresh default-policy pod is offered exactly the "
    "nodes from which a free configured IP is routable), and episodes running one reload "
    "concurrently with schedule/bind/unbind/API release/pod-IP sync/reservation events. Oracle: no allocation or binding of a reserved or "
    "unconfigured IP at any step; after every reload (and every episode containing one) memory == store for every configured IP, no "
    "table entry or FloatingIP object outside the configuration. Non-trivial = a reload dropped >=1 allocated IP and kept >=1, or a "
    "reload overlapped another operation.", quick=5000, thorough=120000, floors={"reservation": 0.3, "reload_dropped_and_kept": 0.03},
    enum=True, extra_assume=["at most one reload, one resync/pod-IP-sync pass and one informer event handler run at a time (single goroutine sources in galaxy-ipam)"])

IPAM_ASSUME = ["fake API server (client-go object tracker); pre-states are built through the real IPAM (AllocateSpecificIP)",
               "IPv4; node subnets pairwise identical or disjoint; requested range lists pairwise disjoint (precondition of the feature)"]
CHECKS["C06"] = {"pkg": "ipamsim", "test": "TestC06", "level": "exploration",
    "quick": {"checks": 12000, "shards": 4, "timeout": 900}, "thorough": {"checks": 200000, "shards": 16, "timeout": 2400, "test": "TestC06All"},
    "rule": "rapid draws a topology (pools sharing pod subnets with disjoint ranges, node subnets shared by pools, /32 node subnets), 1-6 nodes "
            "(some outside every subnet or without InternalIP; a fifth dual-stack: hostname, external address, the IPv4 internal address and an IPv6 internal address after it), a pre-state (random allocations to other owners, one pool exhausted), a pod "
            "(statefulset/deployment/custom resource/bare; default/immutable/never; 0-3 requested range lists; 0-2 IPs already held) and a "
            "candidate node subset. Oracle computed from the configuration text model: exact filter set for fresh default-policy pods, "
            "routability of held IPs, bind on a returned node succeeds, every payload IP routable from the node with its pool's mask/"
            "gateway/VLAN. thorough binds every returned node on a rebuilt world. Non-trivial = >=2 node subnets and the filter both "
            "accepted and rejected candidates.",
    "assumptions": IPAM_ASSUME, "floors": {"fresh_default_pod": 0.2, "request_ranges": 0.1}}
CHECKS["C08"] = {"pkg": "ipamsim", "test": "TestC08", "level": "fault_enumeration",
    "quick": {"checks": 5000, "shards": 4, "timeout": 900}, "thorough": {"checks": 100000, "shards": 16, "timeout": 2400},
    "rule": "rapid draws a topology, k=1-4 pairwise-disjoint requested range lists (some partly outside the configuration), a pre-state "
            "(IPs owned by others, 0-2 IPs of the ranges already owned by the same key) and a node; for every index j=0..k the j-th "
            "FloatingIP creation is made to fail (j=0: no fault), at two levels: AllocateInSubnetsAndIPRange directly and Filter->Bind "
            "through the plugin; in half of the cases with pre-owned IPs galaxy-ipam restarts (re-reads configuration and store) before the plugin-level request. Oracle: success => exactly one distinct routable IP per list in request order, pre-owned IPs reused; "
            "failure => tables and store equal the pre-state; success iff the model says every list has a free routable IP. "
            "Non-trivial = k>=2 and (a creation failed at index >=1, a range was exhausted, or a range was pre-owned).",
    "assumptions": IPAM_ASSUME + ["no cloud provider (the statement is about store calls)", "a failing creation has no effect"],
    "floors": {"create_failed_at_index_ge_1": 0.03}}

CHECKS["C11"] = {"pkg": "ipamsim", "test": "TestC11", "level": "exploration",
    "quick": {"checks": 5000, "shards": 4, "timeout": 900}, "thorough": {"checks": 120000, "shards": 16, "timeout": 2400},
    "rule": "rapid draws 1-40 pods with DNS-1123 namespaces/names (length up to 63, heavy '-' and digits, reserved words like sts/dp/pool/null), "
            "owner in {none, StatefulSet, ReplicaSet with/without '-', Deployment, TApp, arbitrary CamelCase kinds of custom resources incl. "
            "plural-looking and double-s endings (Redis, Process, Ingress, StorageClass, generated), case variants, two owners}, pool "
            "name in {none, DNS-1123}, plus page in [-1,100000] and size in [-1,10000]. Oracle: distinct pods => distinct keys; "
            "ParseKey(FormatKey(p)) returns pod/app/namespace/type/pool; prefixes are prefixes; then through the real /v1/ip routes on a "
            "real plugin: walking all pages - and on past the last one, as a client does that asks for the next page until one comes back empty - shows every IP exactly once with consistent first/last/total; every releasable listed entry "
            "posted back verbatim (statefulset entries also with appType omitted) frees exactly that IP, non-releasable ones free nothing. "
            "Non-trivial = >=3 distinct owner kinds among the allocations and >=2 pages.",
    "assumptions": ["names are DNS-1123 (no '_'), pool names are Pool object names", "fake API server; allocations made through the real IPAM"],
    "floors": {"multi_page": 0.3, "three_owner_kinds": 0.2}}

E2_ASSUME = ["recording fake CNI plugin binaries executed through the real invoke.ExecPlugin path; results are a function of the network name",
             "fake kube client serving the generated pods; cniutil's constant state directory /var/lib/cni/galaxy with process-unique container ids",
             "requests of one container are sequential (kubelet serialises them); containers may run concurrently"]
CHECKS["C12"] = {"pkg": "galaxysim", "test": "TestC12", "level": "fault_enumeration",
    "extra_builds": [{"pkg": "cmd/fakecni", "out": "fakecni"}],
    "quick": {"checks": 1600, "shards": 4, "timeout": 900}, "thorough": {"checks": 24000, "shards": 16, "timeout": 2400},
    "rule": "rapid draws a static configuration (1-4 networks: inline with name, inline keyed by type, .conf files in a conf dir, .conflist; "
            "DefaultNetworks; optional ENIIPNetwork), 1-3 pods (networks annotation absent / comma form ns/net@if / JSON form; ENI resource; "
            "extended-args annotation), a request sequence for up to 2 containers per pod (one ADD each, then DELs incl. repeated and retried "
            "ones; sequential or concurrent across containers), 0-4 scripted plugin failures (network x ADD/DEL x n-th call) and, in a fifth of the cases, a container's state file cut short as by a daemon crash during the write (k/8 of the record on disk), followed by two DELs: the first reports the unreadable record and discards it, the second succeeds, neither invokes a plugin. Oracle: a "
            "reference model of selection, order, interface names, rollback (DEL i..0 after a failing i-th ADD), remembered failed DELs and "
            "no-op repeated DEL predicts the exact invocation log and every request outcome; each plugin's stdin must equal the static "
            "network configuration (+ prevResult of the same container's previous delegate on ADD) and its args the kubelet args + that "
            "pod's extended args. Non-trivial = >=2 networks and (a failure hit or >=2 containers interleaved).",
    "assumptions": E2_ASSUME, "floors": {"multi_network": 0.3, "failure_injected": 0.1}}
CHECKS["C13"] = {"pkg": "galaxysim", "test": "TestC13", "level": "exploration",
    "extra_builds": [{"pkg": "cmd/fakecni", "out": "fakecni"}],
    "quick": {"checks": 2000, "shards": 4, "timeout": 900}, "thorough": {"checks": 32000, "shards": 16, "timeout": 2400},
    "rule": "rapid draws a pool (mask /8-/30, gateway anywhere in the subnet, VLAN 0-4094), a statefulset or deployment pod requesting k=0-4 "
            "ranges, and 1-2 networks; a quarter of the pods were created from the manifest of a pod bound earlier, i.e. their args annotation "
            "already carries common.ipinfos with an address IPAM never gave to them; the daemon talks to an options-aware API-server double whose "
            "watch cache still holds the pod as it was BEFORE the binding (a GET with resourceVersion=0 is answered from it, a consistent GET from the truth); for a quarter of the single-pool statefulset cases the "
            "administrator changes the pool's gateway and VLAN after the first bind, galaxy-ipam reloads, the pod (policy never) is re-created and bound "
            "again, and the plugin must get the new settings. Real Filter+Bind on the simulated cluster -> the applied binding annotation is put on the pod served "
            "to the real galaxy daemon -> ADD -> the fake plugin's recorded CNI_ARGS is decoded with the plugins' own cni/ipam.Allocate -> "
            "(address, prefix length, gateway, VLAN) must equal, in order, what the FloatingIP objects and the pool say, for every network. "
            "Non-trivial = k>=2 or VLAN != 0 or mask != /24.",
    "assumptions": E2_ASSUME + ["engine E1 (simulated cluster) provides the IPAM side"], "floors": {"k_ge_2": 0.2}}

E3_ASSUME = ["strict iptables/ipset fakes (/verif/harness/nf) with kernel-faithful acceptance rules: atomic iptables-restore --noflush per table, a chain line creates or flushes, -A needs the chain, jump targets and matched sets must exist, -X fails on referenced or non-empty chains, ipset destroy fails while referenced, hash:net rejects /0 and keeps nomatch",
             "the iptables half of the fake is cross-checked against the real iptables-restore in a private network namespace (setup_extra.sh); ipset semantics are modelled from its documentation (no ipset binary here)"]
CHECKS["C14"] = {"pkg": "netsim", "test": "TestC14", "level": "exploration",
    "extra_builds": [{"pkg": "cmd/fakecni", "out": "fakecni"}],
    "quick": {"checks": 4000, "shards": 4, "timeout": 900}, "thorough": {"checks": 48000, "shards": 8, "timeout": 2400},
    "rule": "rapid draws 1-6 pods x 0-4 ports (explicit host ports taken from currently free kernel ports, random host port 0, tcp/udp in mixed "
            "case, host IP empty or set), 0-2 other pods with live mappings, prior NAT tables with 0-3 foreign chains/rules and 0-3 stale "
            "KUBE-HP-* chains with dangling KUBE-HOSTPORTS rules; real sockets, strict fake iptables. Oracle: full sync from any prior "
            "table == full sync from empty (own chains), exactly one rule+DNAT chain per port, idempotent, foreign chains byte-identical, "
            "no rejected batch; Clean(p) removes exactly p's chains/rules, Setup(p);Clean(p) restores the table; handed-out ports distinct "
            "per protocol, bind() fails while held and succeeds after CloseHostports; a setup with one port taken fails and leaves every "
            "port it opened bindable. A THIRD OF THE CASES runs one level up, against the galaxy daemon's request path (pkg/galaxy/server.go: "
            "setupPortMapping / cleanupPortMapping / cleanIPtables / setupIPtables): 1-4 pods with 0-3 container ports (explicit host ports "
            "from a universe of 4 so that pods collide, host port 0 with/without the port-mapping annotation, host IP), an unrelated "
            "process holding a port, and 2-12 operations: CNI ADD (the fake plugin or the n-th iptables call may fail; a failed ADD is "
            "followed by kubelet's DEL), CNI DEL (the n-th iptables call may fail; retried), daemon restart (sockets die, a new instance "
            "runs the real start-up synchronisation on the same API objects and nat table), the GC's clean callback for dead containers, "
            "a pod becoming terminating (deletion timestamp set, sandbox alive until its DEL), the re-creation of a pod's sandbox (DEL of the old "
            "container and ADD of a new one for the SAME pod object, annotations included). "
            "After every operation: every live pod's recorded host ports are bound by galaxy and pairwise distinct, no other port of the "
            "universe and no random port handed out earlier is bound, the nat table holds exactly the mappings of the live pods (pod IP = "
            "what the plugin reported), foreign chains byte-identical, the saved port file exists iff the container is live with ports, the "
            "annotation equals what was set up; right after a failed ADD none of its ports is bound; after the final teardown nothing is left. In a third of the cases a pod with random ports only is set up a second time without a teardown in between: the ports handed out by the second setup must be > 0 and held. In a quarter of the cases the teardown of a pod with random ports is overlapped by the set-up of its successor under the same name (hook VerifAfterClose starts the successor's OpenHostports right after the teardown has closed a socket): the successor's ports are held while it lives and free after its own teardown (a socket of this process still bound to the port although the handler has forgotten it is a violation). Non-trivial = stale galaxy chains and foreign rules present, >=2 pods, >=1 port.",
    "assumptions": E3_ASSUME + ["every C14 test process re-executes itself in a private network namespace (unshare -n) so that parallel shards and unrelated processes cannot take a host port between two steps; without namespace support it stays in the shared namespace (class private_netns shows which)", "EnsureBasicRule/full sync ran before per-pod Setup/Clean (as galaxy does at start-up)",
                                "an explicit port lost to another process between selection and use makes the case inconclusive (counted in coverage.extra)"],
    "floors": {"stale_galaxy_chains": 0.3, "foreign_rules": 0.3}}

CHECKS["C15"] = {"pkg": "netsim", "test": "TestC15", "level": "exploration",
    "quick": {"checks": 6000, "shards": 4, "timeout": 900}, "thorough": {"checks": 48000, "shards": 16, "timeout": 2400},
    "rule": "rapid draws a pair of cluster states A,B (2-4 labelled namespaces, 3-10 labelled pods with IPs, some on this node, 0-5 policies "
            "with pod/namespace/combined selectors, ipBlocks with excepts, ports, all policyTypes combinations; B derived from A by pod "
            "delete/relabel/re-address/loss of the address (re-created, not networked yet)/re-creation under the same name on the other side (local <-> remote)/add and policy delete/rewrite/add), optionally the A->B difference as a generated permutation of "
            "informer events through the real handlers (with the listers following event by event, or - a third of these cases - already at B when the first "
            "handler runs: then the state right after every policy event handler, each of which runs a full synchronisation, must be the one derived from B), and prior kernel state (foreign chains/sets, stale GLX sets, stale GLX policy "
            "chains, a stale pod chain still referencing a stale policy chain, hook chains that exist without the jumps from the built-in chains). Every jump "
            "from INPUT/OUTPUT/FORWARD into galaxy's hook chains that a sync from empty tables installs must be present after the full sync. Oracle on the strict fakes: no rejected batch, non-GLX "
            "chains/rules/sets unchanged after every call, full sync of B == full sync of B on empty tables (canonical form), second full "
            "sync changes nothing. The four findings this check had recorded (K1-K4) are repaired; their signatures are still computed but nothing is excused any more. "
            "Non-trivial = B differs from A in >=1 policy and >=1 pod and stale GLX garbage had to be removed.",
    "assumptions": E3_ASSUME + ["one ipBlock peer per rule (several are merged into one set with conflicting elements, reported under C16)",
                                "whether ipset 'add -exist' overwrites the nomatch flag is not settled; the fake keeps the existing element"],
    "floors": {"stale_glx_garbage": 0.3, "pod_changed": 0.3}}

CHECKS["C16"] = {"pkg": "netsim", "test": "TestC16", "level": "exploration",
    "quick": {"checks": 6000, "shards": 4, "timeout": 900}, "thorough": {"checks": 64000, "shards": 16, "timeout": 2400},
    "rule": "rapid draws a cluster (2-4 labelled namespaces, 3-10 labelled pods with IPs, local or remote) and 0-5 policies (pod selectors with "
            "matchLabels/matchExpressions, namespace selectors, both combined, ipBlocks with excepts incl. 0.0.0.0/0, numeric TCP/UDP ports, "
            "empty from/to, empty ports, every policyTypes combination). The real policy manager installs rules on the strict fakes (two full "
            "syncs); then the flow universe is enumerated exhaustively per case: src,dst in pods + external addresses inside/outside every "
            "block and except, tcp/udp, every mentioned port + one other, for all flows touching a local pod. Oracle: the packet walker's "
            "verdict on the installed tables vs a reference evaluator written from the Kubernetes API documentation. A mismatch that a "
            "recorded deviation (known_findings.txt DS,DF,DM,Dcombined; DE,DA,DC,DZ are repaired and excuse nothing any more) explains is counted under that finding; any other "
            "mismatch is a violation. In half of the cases the pods then change (relabel, new address, new pod, deletion) and galaxy only "
            "sees the pod events (no full sync): every flow is judged again - a flow allowed now must be accepted; an accepted flow must be "
            "allowed when ipset membership is taken as the union over the states since the last full sync (the event handlers add, only a "
            "full sync removes) and everything else from the current state. evaluations = clusters; coverage.extra.flows = flows judged. "
            "Non-trivial = >=1 isolated local pod and both ACCEPT and DROP verdicts occur. A third phase places the update event of a NEW local pod inside a periodic full synchronisation, before each of the pass's iptables-save snapshots in turn (hook of the strict fake); after the pass the verdicts must hold for that pod too.",
    "assumptions": E3_ASSUME + ["new-connection packets on the FORWARD hook (pod-to-pod and pod-to-external traffic through this node); conntrack RELATED,ESTABLISHED never matches a first packet",
                                "a missing from/to or ports list and a present but empty one mean the same; the generated objects carry either form (objects built in Go keep the difference, a JSON round trip does not)",
                                "numeric ports only (named ports are documented as unsupported)"],
    "floors": {"isolated_local_pod": 0.3, "agrees_with_kubernetes_semantics": 0.2}}

CHECKS["C17"] = {"pkg": "gcsim", "test": "TestC17", "level": "fault_enumeration",
    "quick": {"checks": 4000, "shards": 4, "timeout": 900}, "thorough": {"checks": 40000, "shards": 8, "timeout": 2400},
    "rule": "rapid draws 3-12 container ids with a runtime state (Docker mode: running, paused, restarting, created, exited, dead, 404, "
            "daemon 500, connection reset; containerd mode: sandbox READY, NOTREADY x {pod missing, containers running/waiting/terminated, "
            "apiserver error}, NotFound, Unavailable), IP-reservation files named by IP in two dirs (content id, id\\nif, id\\r\\nif, "
            "padded), state/port files in three gc dirs, non-IP names, empty IP files, sub-directories, a missing configured dir, and a "
            "failing port-clean callback, and 0-3 changes between the first and the second round (a container exits, an exited docker container is started again, the runtime starts or stops failing; the state files of the container may be back). The same flannel GC instance runs three rounds against a Docker Engine API stub / CRI gRPC stub on unix "
            "sockets. Oracle per file: removed only if a successful runtime answer says the container is gone or exited; never on runtime "
            "errors or for live states - judged by the answer of the round in which the file disappears; everything of a dead container gone after <= 2 rounds incl. the port-clean callback; other files "
            "and directories untouched. Non-trivial = live, dead and erroring containers in the same case.",
    "assumptions": ["fake container runtimes speaking the Docker Engine HTTP API and the CRI RuntimeService gRPC API; the veth collector (netlink) is not exercised",
                    "NOTREADY sandbox whose pod still has running/waiting containers counts as alive (the code's own rule)"],
    "floors": {"alive_dead_and_erroring": 0.2, "containerd_mode": 0.15}}

CHECKS["C18"] = {"pkg": "robust", "test": "(TestC18|FuzzC18.*)", "level": "exploration", "hang_is_violation": True,
    "extra_builds": [{"pkg": "cmd/fakecni", "out": "fakecni"}],
    "quick": {"checks": 8000, "shards": 4, "timeout": 1200},
    "thorough": {"checks": 64000, "shards": 16, "timeout": 3000,
                 "fuzz": [{"target": "FuzzC18Config", "time": "40s"}, {"target": "FuzzC18PodArgs", "time": "40s"}, {"target": "FuzzC18HTTP", "time": "40s"},
                          {"target": "FuzzC18CNI", "time": "30s"}, {"target": "FuzzC18GalaxyConf", "time": "20s"}, {"target": "FuzzC18Parsers", "time": "30s"}]},
    "rule": "Surfaces, each as a rapid generator (valid seeds from docs/tests, hostile constants such as 255.255.255.255, 0.0.0.0, ~, /0, "
            "deep nesting, random bytes, seed mutations) and as a native fuzz target with the oracle inside: floatingip configuration text -> "
            "reload -> allocation; pod objects with arbitrary args/policy/pool annotations, owners, names, phases -> Filter, Bind, Preempt, "
            "UpdatePod, DeletePod, unbind, resync, pod-IP sync (a tenth of the pods are deployment pods whose name is searched so that the pod's lock key and its deployment's or pool's lock key fall into the same slot of a 500000-slot FNV-1a hashed mutex, as one pod name in 500000 does); GET/POST /v1/ip and POST/GET/DELETE /v1/pool queries and bodies through the "
            "real routes; CNI request bytes and networks annotations through the real /cni handler; galaxy JSON configuration -> "
            "checkNetworkConf -> ADD/DEL; generated valid NetworkPolicies -> full syncs and pod/policy events on strict fakes; "
            "ParseIPRange, IPNet/IPRange JSON, ParseCIDR, ParseIPv4Mask, annotation and args parsers. Oracle: the call returns a value or an "
            "error (no panic, 30 s watchdog) - also when one API-server call made while a configuration, pod or HTTP request is handled fails (a third of those cases: the k-th call, k=1-6, answers internal/timeout/conflict/notfound/already-exists) -, a benign follow-up request on the same instance answers, tables stay disjoint. quick also "
            "replays the fuzz seed corpus. Non-trivial = the input passed the first decoder (reached logic). Ranges of more than 2^16 "
            "addresses are outside the claimed domain.",
    "assumptions": ["range walks over more than 2^16 addresses are not generated (legitimately slow, not claimed)",
                    "the scheduler does not bind a pod that is already assigned; unknown pods in CNI requests resolve (the daemon otherwise polls 5 s by design)"],
    "floors": {}}

CHECKS["C19"] = {"pkg": "racesim", "test": "TestC19", "level": "exploration", "race": True,
    "extra_builds": [{"pkg": "cmd/fakecni", "out": "fakecni"}],
    "quick": {"checks": 480, "shards": 4, "timeout": 1200},
    "thorough": {"checks": 9600, "shards": 16, "timeout": 3000},
    "rule": "rapid draws operation mixes for 4-12 free-running goroutines on shared instances, in a binary built with -race: (a) galaxy-ipam: "
            "Filter, Filter+Bind (one bind per pod), Preempt, pod update/finish/delete events feeding 5 unbind loops, resync and pod-IP sync "
            "(one goroutine), add/delete watch events of administrator-labelled FloatingIP objects through the handlers the IPAM registered (one goroutine), /v1/ip list and release, pool create/update with pre-allocation, ConfigMap reload (one goroutine), Prometheus "
            "Gather on the IPAM collector, recording cloud provider; (b) galaxy: concurrent CNI ADD/DEL of multi-network pods (networks from the json configuration and networks that exist only as "
            "files of the network conf dir, resolved per request) through the real handler and fake plugins, policy manager add/update/delete/pod events (the policy enters and leaves the lister before its handler runs, so deletes leave chains kept for a second sweep) and full syncs on the mutex-protected strict fakes, "
            "port-mapping open/close/setup/clean/full sync. Oracle: Go race detector reports (GORACE halt_on_error=0), attributed to galaxy "
            "only when the innermost non-runtime frame of both access stacks lies in /repo (harness frames => inconclusive), de-duplicated "
            "by the unordered pair of frames; runtime fatal errors (concurrent map access) end the process and are reported too. "
            "Non-trivial = >=2 distinct entry-point kinds overlapped in time (logical clock around each op); classes list the pairs that overlapped.",
    "assumptions": ["schedules are the operating system's, not enumerated: the property is sampled", "single-goroutine sources (configmap poll, resync loop, periodic policy sync) are not run twice concurrently",
                    "the static lock-discipline report named in the property's anchor is a different technique family and is not built"],
    "floors": {"target_ipam": 0.3, "target_galaxy": 0.15}}

_KDIFF = "go test -tags verif ./nf -run TestKernelDiff -rapid.checks=600 -rapid.seed=1 -count=1"
CHECKS["C14"]["thorough"]["pre_cmds"] = [_KDIFF]
CHECKS["C15"]["thorough"]["pre_cmds"] = [_KDIFF]
