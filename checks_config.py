# Per-property configuration of the vcheck driver: engine package, test function, tier sizes, evidence texts.
CHECKS = {
    "C20": {
        "pkg": "codec", "test": "TestC20", "level": "exploration", "hang_is_violation": True,
        "quick": {"checks": 6000, "timeout": 600},
        "thorough": {"checks": 640000, "shards": 16, "timeout": 1500},
        "rule": "rapid draws 1-3 pools from a set-of-uint32 model (prefix /1-/32, subnets touching 0.0.0.0 and "
                "255.255.255.255, 1-4 ranges with gaps>=2, routableSubnet/nodeSubnets with duplicates and host bits), renders "
                "them to configuration JSON text and (1 case in 3) mutates one pool into an invalid one (outside subnet, "
                "unsorted, overlapping, adjacent, reversed, bad literal, missing field, wrong JSON type); plus one range string "
                "a~b per case. Non-trivial = >=2 ranges, or a boundary address (x.x.x.0/255, 0.0.0.0, 255.255.255.255), or a "
                "mutated-invalid configuration; distinct by SHA-1 of the case.",
        "assumptions": ["IPv4 only; pod subnets other than 0.0.0.0/0", "gateway lies inside the pool's subnet (as in every documented configuration)",
                        "pools of one configuration do not overlap (documented requirement) when enumerated through IPAM"],
        "floors": {"valid": 0.3, "boundary_address": 0.05},
    },
}
