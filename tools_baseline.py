#!/usr/bin/env python3
"""Runs the repository's baseline suite (guard off) and compares the passing set with /root/.vp/BASELINE.json."""
import json, subprocess, sys, os
pkgs = sys.argv[1:] or ["./..."]
env = dict(os.environ, GOFLAGS="-mod=mod", GOPROXY="off", GOSUMDB="off", GOTOOLCHAIN="local")
p = subprocess.run(["go", "test", "-mod=mod", "-json", "-vet=off", "-count=1", "-timeout", "25m"] + pkgs, cwd="/repo", env=env,
                   stdout=subprocess.PIPE, stderr=subprocess.DEVNULL, text=True)
passed = set()
for line in p.stdout.splitlines():
    try:
        e = json.loads(line)
    except Exception:
        continue
    if e.get("Action") == "pass" and e.get("Test"):
        passed.add("%s::%s" % (e["Package"], e["Test"]))
base = json.load(open("/root/.vp/BASELINE.json"))
want = set(base["stable_pass"])
if pkgs != ["./..."]:
    pk = set()
    for x in pkgs:
        pk.add("tkestack.io/galaxy/" + x.strip("./"))
    want = {w for w in want if w.split("::")[0] in pk}
missing = sorted(want - passed)
print("baseline stable_pass: %d, passed now: %d, missing: %d" % (len(want), len(passed & want), len(missing)))
for m in missing:
    print("  MISSING", m)
sys.exit(1 if missing else 0)
