HOOK_COMMITS = ["1ae4f10", "19e3492", "628d03a", "f9a3fca", "d2fcb1f"]
ENGINES = [
    {"name": "racesim", "path": "/verif/harness/racesim", "serves_properties": ["C19"],
     "kind_free_text": "free-running concurrent operation mixes over shared instances of both daemons in a -race binary; the driver attributes detector reports"},
    {"name": "robust", "path": "/verif/harness/robust", "serves_properties": ["C18"],
     "kind_free_text": "rapid generators and native go-fuzz targets over every parsing/typed surface of both daemons, built on the other engines, with panic capture, watchdog and follow-up request"},
    {"name": "gcsim", "path": "/verif/harness/gcsim", "serves_properties": ["C17"],
     "kind_free_text": "the real flannel GC against a Docker Engine API stub and a CRI gRPC stub on unix sockets, per-case directories"},
    {"name": "netsim", "path": "/verif/harness/netsim", "serves_properties": ["C14", "C15", "C16"],
     "kind_free_text": "strict kernel-faithful fakes of iptables/ipset (/verif/harness/nf) + packet walker; the real portmapping handler and policy manager run on them"},
    {"name": "galaxysim", "path": "/verif/harness/galaxysim", "serves_properties": ["C12", "C13"],
     "kind_free_text": "the real galaxy CNI request path (handler, network resolution, cniutil, invoke) driving recording fake plugin binaries; "
                       "composition with ipamsim for the IPAM->plugin round trip"},
    {"name": "ipamsim", "path": "/verif/harness/ipamsim", "serves_properties": ["C01", "C02", "C03", "C04", "C05", "C06", "C07", "C08", "C09", "C10", "C11"],
     "kind_free_text": "simulated cluster around the real galaxy-ipam plugin: fake API server trackers, informer model, cooperative "
                       "scheduler owning the interleaving, fault/crash injection, recording cloud provider; rapid stateful generation"},
    {"name": "codec", "path": "/verif/harness/codec", "serves_properties": ["C20"],
     "kind_free_text": "rapid generators over pure codecs/validators with a set-of-uint32 reference model"},
]
NOT_APPLICABLE = {}
TEXTS = {
    "C20": {
        "engine": "codec", "design_ref": "DESIGN.md §4 C20",
        "technique": "property-based testing (rapid): model-based generation of valid and mutated-invalid configurations, "
                     "set-of-uint32 reference model, encode/decode round trips",
        "level_text": "Generated-input search: every accepted configuration is compared with the integer-set model it was rendered "
                      "from (ranges, order, gaps, Size, Contains, enumeration by the real IPAM ConfigurePool, Marshal/Unmarshal and "
                      "IPRange string/JSON round trips); every mutated-invalid configuration must be rejected. Exploration is the "
                      "right level because the input space (JSON texts, 2^32 addresses) is unbounded and the oracle is exact.",
        "level_note": "Trusted: the harness' integer model and renderer; net.ParseIP/ParseCIDR of the Go standard library. IPv4 only; "
                      "gateway inside the subnet; 0.0.0.0/0 excluded as the property states.",
    },
}
_HIST_NOTE = ("Trusted: the harness' API-server/informer model (client-go object tracker + pods/binding semantics), the cooperative "
              "scheduler's blocked-goroutine detection, the reference oracle. Interleavings are explored at lister/IPAM/API-call "
              "granularity, not instruction granularity; 3-way episodes are sampled.")
def _h(ref, tech, text):
    return {"engine": "ipamsim", "design_ref": ref, "technique": tech, "level_text": text, "level_note": _HIST_NOTE}
TEXTS.update({
    "C01": _h("DESIGN.md §4 C01", "stateful property-based testing (rapid): generated histories + generated schedules, ownership invariants after every step",
              "Generated histories over generated topologies with harness-owned schedules; ownership invariants are evaluated after every op "
              "and every scheduler step. Exploration: the space of histories x interleavings is unbounded; failures shrink to a replayable Case."),
    "C02": _h("DESIGN.md §4 C02", "stateful property-based testing (rapid): histories biased to reschedule/rolling update, reservation-before-filter relation",
              "For every filter/bind of every generated history the IPAM state right before the call is compared with the binding that results."),
    "C03": _h("DESIGN.md §4 C03", "model-based property testing (rapid): reference model of the documented release policy evaluated at every unbind/resync and at quiescence",
              "Two-directional oracle from doc/float-ip.md: no premature release at evaluation points, no leak at harness-constructed quiescence."),
    "C04": _h("DESIGN.md §4 C04", "stateful property-based testing (rapid): dangerous event orderings and interleavings, live-pod-keeps-IP invariant after every step",
              "Histories are built around late/duplicate unbind sources, resync, API release and reload against a live same-named replacement."),
    "C10": _h("DESIGN.md §4 C10", "stateful property-based testing (rapid): provider call log replayed through a per-IP state machine",
              "A recording provider with cleanly failing calls; the log of every generated history is replayed through none|on(node)."),
})
TEXTS["C05"] = _h("DESIGN.md §4 C05", "fault-injection property testing (rapid): per-history enumeration of API-call indices x {error, crash-before, crash-after}, memory==store and restart-equivalence oracles",
                  "Every selected API-call index of every generated history is turned into an error and into a crash point; quick samples indices, thorough enumerates all of them.")
TEXTS["C07"] = _h("DESIGN.md §4 C07", "stateful property-based testing (rapid) with generated schedules: pool-count cap invariant after every scheduler step",
                  "Concurrent filters / pool API calls are interleaved at IPAM-call granularity so that 'count' and 'allocate' of two requests can be separated.")
TEXTS["C09"] = _h("DESIGN.md §4 C09", "stateful property-based testing (rapid) with generated schedules: never-allocated sets and memory==store after reloads that overlap other operations",
                  "Reloads are run concurrently with allocations/releases/reservation events under the harness-owned scheduler (yield points include the store List inside the reload).")
TEXTS["C06"] = _h("DESIGN.md §4 C06", "property-based testing (rapid): generated topologies/allocation states/requests, routable-set model computed from the configuration text",
                  "The filter result and the binding payload are compared with a model derived from the configuration text, independent of IPAM's tables.")
TEXTS["C08"] = _h("DESIGN.md §4 C08", "fault-injection property testing (rapid): per-case enumeration of the failing creation index, conformance / all-or-nothing vs. pre-state",
                  "Every creation index of every generated request is failed once, at the IPAM level and through Filter+Bind.")
TEXTS["C11"] = _h("DESIGN.md §4 C11", "property-based testing (rapid): key codec round trip/injectivity and list->release differential + paging partition through the real HTTP routes",
                  "Generated names/owners/pools; the list output is fed back into release, which no test of the suite does.")
_E2_NOTE = "Trusted: the fake plugin binary and the reference model of the expected invocation log; the CNI library's exec path is real."
TEXTS["C12"] = {"engine": "galaxysim", "design_ref": "DESIGN.md §4 C12", "level_note": _E2_NOTE,
    "technique": "model-based property testing with fault injection (rapid): generated configs/annotations/request sequences/plugin failure scripts vs. a reference model of the invocation log",
    "level_text": "Every generated failure script is executed against the real daemon path and recording plugin binaries; the complete invocation log, "
                  "stdin and args of every plugin call are compared with a reference model (ordering, pairing, rollback, retry, isolation)."}
TEXTS["C13"] = {"engine": "galaxysim", "design_ref": "DESIGN.md §4 C13", "level_note": _E2_NOTE,
    "technique": "property-based testing (rapid): composed round trip IPAM store -> binding annotation -> daemon -> CNI_ARGS -> plugin-side decoder",
    "level_text": "End-to-end round trip through the real producer (galaxy-ipam Bind), the real daemon and the real consumer-side decoder, over generated masks/gateways/VLANs/IP counts."}
_E3_NOTE = "Trusted: the strict netfilter fakes (rules listed in DESIGN.md §3 E3, iptables half cross-checked against the kernel in a netns), the packet walker, the reference evaluator."
TEXTS["C14"] = {"engine": "netsim", "design_ref": "DESIGN.md §4 C14", "level_note": _E3_NOTE,
    "technique": "property-based testing (rapid): inverse and convergence laws over generated port sets and prior NAT tables on a strict iptables fake, bind() probes on real sockets",
    "level_text": "Inverse (Setup;Clean), convergence (from-anything == from-empty), idempotence and frame laws are checked for every generated port set and prior table; port holding is probed with real sockets."}
TEXTS["C15"] = {"engine": "netsim", "design_ref": "DESIGN.md §4 C15", "level_note": _E3_NOTE,
    "technique": "metamorphic property testing (rapid): from-anything == from-empty convergence, idempotence, frame and reference-validity on strict netfilter fakes",
    "level_text": "The real policy manager is driven over generated state pairs, event permutations and prior kernel garbage; the strict fakes reject what the kernel rejects."}
TEXTS["C16"] = {"engine": "netsim", "design_ref": "DESIGN.md §4 C16", "level_note": _E3_NOTE,
    "technique": "differential property testing (rapid): packet walk over the installed rules vs. a reference NetworkPolicy evaluator, exhaustive flow enumeration per generated cluster",
    "level_text": "Every flow of a per-case universe is judged by the installed rules (packet walker over the strict fakes' tables) and by an independent evaluator of the API semantics; confirmed deviations are explicit, toggleable parts of the evaluator so that only unexplained mismatches raise an alarm."}
TEXTS["C17"] = {"engine": "gcsim", "design_ref": "DESIGN.md §4 C17",
    "level_note": "Trusted: the runtime stubs and the per-file keep/remove model. The veth collector needs netlink and is out of reach.",
    "technique": "fault-injection property testing (rapid): generated container-state mixes, directory contents and runtime faults vs. a per-file keep/remove model",
    "level_text": "Every generated mix of container states and runtime faults is run through the real GC against stub runtimes; the directory contents and port-clean callbacks are compared with a model file by file."}
TEXTS["C18"] = {"engine": "robust", "design_ref": "DESIGN.md §4 C18",
    "level_note": "Trusted: the watchdog bound (30 s vs. milliseconds of legitimate work) and the engines' fakes. Absence of crashes is sampled, never established.",
    "technique": "fuzzing: rapid structured/byte generators plus coverage-guided native Go fuzz targets with panic capture, watchdog and follow-up-request oracle",
    "level_text": "Every surface is attacked with generated and mutated inputs; the oracle (returns, no panic, instance still answers, tables sane) is inside each target."}
TEXTS["C19"] = {"engine": "racesim", "design_ref": "DESIGN.md §4 C19",
    "level_note": "Trusted: the Go race detector; the attribution rule (innermost non-runtime frames). Interleavings are sampled (OS scheduler), not enumerated.",
    "technique": "property-based concurrency testing (rapid-generated operation mixes on free-running goroutines) under the Go race detector",
    "level_text": "Generated mixes of every public entry point run concurrently on shared instances; the detector needs both accesses to execute unsynchronised in one run, so pair coverage of overlapping entry points is the reported metric."}
