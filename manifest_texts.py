HOOK_COMMITS = ["1ae4f10", "19e3492"]
ENGINES = [
    {"name": "codec", "path": "/verif/harness/codec", "serves_properties": ["C20"],
     "kind_free_text": "rapid generators over pure codecs/validators with a set-of-uint32 reference model"},
]
NOT_APPLICABLE = {}
TEXTS = {
    "C20": {
        "engine": "codec", "design_ref": "DESIGN.md §4 C20",
        "technique": "property-based testing (rapid): model-based generation of valid and mutated-invalid configurations, "
                     "set-of-uint32 reference model, encode/decode round trips",
        "level_text": "Generated-input search: every accepted configuration is compared with the integer-set model it was rendered "
                      "from (ranges, order, gaps, Size, Contains, enumeration by the real IPAM ConfigurePool, Marshal/Unmarshal and "
                      "IPRange string/JSON round trips); every mutated-invalid configuration must be rejected. Exploration is the "
                      "right level because the input space (JSON texts, 2^32 addresses) is unbounded and the oracle is exact.",
        "level_note": "Trusted: the harness' integer model and renderer; net.ParseIP/ParseCIDR of the Go standard library. IPv4 only; "
                      "gateway inside the subnet; 0.0.0.0/0 excluded as the property states.",
    },
}
