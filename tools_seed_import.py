#!/usr/bin/env python3
"""tools_seed_import.py <id> <property> <demo package dir>: copies /tmp/seed/<id>/SEED (patch.diff, *_test.go, README.md) into
/verif/seeded/<id>/ and registers it in seeds_index.py. Removes the scratch worktree afterwards."""
import sys, os, shutil, glob, subprocess, re
sid, prop, pkg = sys.argv[1:4]
src = "/tmp/seed/%s/SEED" % sid
dst = "/verif/seeded/" + sid
os.makedirs(dst, exist_ok=True)
for f in glob.glob(src + "/*"):
    b = os.path.basename(f)
    if b == "patch.diff" or b.endswith("_test.go") or b == "README.md":
        shutil.copy(f, dst)
# regenerate patch from the worktree if SEED/patch.diff is missing
if not os.path.exists(dst + "/patch.diff"):
    out = subprocess.run("git -C /tmp/seed/%s diff -- . ':!*_test.go'" % sid, shell=True, stdout=subprocess.PIPE, text=True).stdout
    open(dst + "/patch.diff", "w").write(out)
s = open("/verif/seeds_index.py").read()
if '"%s"' % sid not in s:
    s = s.rstrip().rstrip("}").rstrip() + '\n "%s": ("%s", "%s"),\n}\n' % (sid, prop, pkg)
    open("/verif/seeds_index.py", "w").write(s)
subprocess.run(["git", "-C", "/repo", "worktree", "remove", "--force", "/tmp/seed/" + sid])
print("imported", sid, os.listdir(dst))
