#!/bin/sh
# tools_sweep_all.sh <tier> <seed...>: runs every registered check (or those in $PROPS) at the given seeds and prints one line per run.
tier=$1; shift
for s in "$@"; do
  for p in ${PROPS:-C01 C02 C03 C04 C05 C06 C07 C08 C09 C10 C11 C12 C13 C14 C15 C16 C17 C18 C19 C20}; do
    t0=$(date +%s)
    out=$(VERIF_SEED=$s ./vcheck $p --tier $tier --no-evidence 2>&1); rc=$?
    t1=$(date +%s)
    echo "seed=$s $p rc=$rc wall=$((t1-t0))s $(echo "$out" | grep -E 'VIOLATION|INCONCLUSIVE|BUILD FAILED' | head -2 | cut -c1-200)"
  done
done
