#!/bin/sh
# tools_seed_try.sh <seed-id> <property> [vcheck args...]: runs a check against a seeded change through a go build overlay
# (scratch worktree; /repo is not touched). VERIF_SEED is honoured.
set -u
sid=$1; prop=$2; shift 2
d=/verif/seeded/$sid; p=$d/patch.diff; [ -f $d/patch-current.diff ] && p=$d/patch-current.diff
wt=/tmp/st_$sid.$$
git -C /repo worktree add -q --detach $wt HEAD || exit 2
git -C $wt apply $p || { git -C /repo worktree remove --force $wt; exit 2; }
python3 - "$wt" <<'PY'
import json,subprocess,sys
wt=sys.argv[1]
ch=subprocess.run(["git","-C",wt,"diff","--name-only"],stdout=subprocess.PIPE,text=True).stdout.split()
json.dump({"Replace":{"/repo/"+f: wt+"/"+f for f in ch}}, open(wt+"/overlay.json","w"))
PY
/verif/vcheck $prop --no-evidence --overlay $wt/overlay.json "$@"; rc=$?
git -C /repo worktree remove --force $wt
echo "seed=$sid property=$prop exit=$rc"
