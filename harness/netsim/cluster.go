package netsim

import (
	"fmt"
	"sort"

	corev1 "k8s.io/api/core/v1"
	networkv1 "k8s.io/api/networking/v1"
	metav1 "k8s.io/apimachinery/pkg/apis/meta/v1"
	"k8s.io/apimachinery/pkg/util/intstr"
	k8sfake "k8s.io/client-go/kubernetes/fake"
	corelister "k8s.io/client-go/listers/core/v1"
	netlister "k8s.io/client-go/listers/networking/v1"
	"k8s.io/client-go/tools/cache"
	"pgregory.net/rapid"
	"tkestack.io/galaxy/pkg/policy"
	"verifharness/nf"
)

const LocalNode = "node-local"

// ---- case-as-data model of a cluster ----

type NsT struct {
	Name   string            `json:"name"`
	Labels map[string]string `json:"labels"`
}

type PodT struct {
	Ns     string            `json:"ns"`
	Name   string            `json:"name"`
	Labels map[string]string `json:"labels"`
	IP     string            `json:"ip"` // "" = no IP yet
	Local  bool              `json:"local"`
}

type SelT struct {
	Nil    bool              `json:"nil,omitempty"` // selector absent
	Labels map[string]string `json:"labels,omitempty"`
	// one optional expression: key In/NotIn values, Exists, DoesNotExist
	ExprKey string   `json:"expr_key,omitempty"`
	ExprOp  string   `json:"expr_op,omitempty"`
	ExprVal []string `json:"expr_val,omitempty"`
}

type PeerT struct {
	Pod    SelT     `json:"pod"`
	Ns     SelT     `json:"ns"`
	CIDR   string   `json:"cidr,omitempty"`
	Except []string `json:"except,omitempty"`
}

type PortT struct {
	Proto string `json:"proto"` // "" (default TCP) | TCP | UDP
	Port  int    `json:"port"`  // 0 = no port (all ports of the protocol)
}

type RuleT struct {
	Peers []PeerT `json:"peers"`
	Ports []PortT `json:"ports"`
}

type PolicyT struct {
	Ns      string   `json:"ns"`
	Name    string   `json:"name"`
	Sel     SelT     `json:"sel"`
	Types   []string `json:"types"` // subset of Ingress, Egress; empty = omitted
	Ingress []RuleT  `json:"ingress"`
	Egress  []RuleT  `json:"egress"`
}

type ClusterT struct {
	Namespaces []NsT     `json:"namespaces"`
	Pods       []PodT    `json:"pods"`
	Policies   []PolicyT `json:"policies"`
}

func (s SelT) toK8s() *metav1.LabelSelector {
	if s.Nil {
		return nil
	}
	ls := &metav1.LabelSelector{}
	if len(s.Labels) > 0 {
		ls.MatchLabels = map[string]string{}
		for k, v := range s.Labels {
			ls.MatchLabels[k] = v
		}
	}
	if s.ExprKey != "" {
		ls.MatchExpressions = []metav1.LabelSelectorRequirement{{Key: s.ExprKey, Operator: metav1.LabelSelectorOperator(s.ExprOp), Values: s.ExprVal}}
	}
	return ls
}

// matches is the reference implementation of label-selector matching (written from the API documentation).
func (s SelT) matches(labels map[string]string) bool {
	for k, v := range s.Labels {
		if labels[k] != v {
			return false
		}
	}
	if s.ExprKey != "" {
		val, has := labels[s.ExprKey]
		in := false
		for _, v := range s.ExprVal {
			if v == val {
				in = true
			}
		}
		switch s.ExprOp {
		case "In":
			if !has || !in {
				return false
			}
		case "NotIn":
			if has && in {
				return false
			}
		case "Exists":
			if !has {
				return false
			}
		case "DoesNotExist":
			if has {
				return false
			}
		}
	}
	return true
}

func (p PolicyT) toK8s() *networkv1.NetworkPolicy {
	np := &networkv1.NetworkPolicy{ObjectMeta: metav1.ObjectMeta{Name: p.Name, Namespace: p.Ns}}
	if sel := p.Sel.toK8s(); sel != nil {
		np.Spec.PodSelector = *sel
	}
	for _, t := range p.Types {
		np.Spec.PolicyTypes = append(np.Spec.PolicyTypes, networkv1.PolicyType(t))
	}
	conv := func(r RuleT) ([]networkv1.NetworkPolicyPeer, []networkv1.NetworkPolicyPort) {
		var peers []networkv1.NetworkPolicyPeer
		for _, pe := range r.Peers {
			var k networkv1.NetworkPolicyPeer
			if pe.CIDR != "" {
				k.IPBlock = &networkv1.IPBlock{CIDR: pe.CIDR, Except: pe.Except}
			} else {
				k.PodSelector = pe.Pod.toK8s()
				k.NamespaceSelector = pe.Ns.toK8s()
			}
			peers = append(peers, k)
		}
		var ports []networkv1.NetworkPolicyPort
		for _, po := range r.Ports {
			var k networkv1.NetworkPolicyPort
			if po.Proto != "" {
				pr := corev1.Protocol(po.Proto)
				k.Protocol = &pr
			}
			if po.Port != 0 {
				v := intstr.FromInt(po.Port)
				k.Port = &v
			}
			ports = append(ports, k)
		}
		// a missing list and a present but empty list mean the same ("all peers" / "all ports"); objects built in Go (typed
		// clients, fakes, deep copies) carry either form, so both are produced (which one follows from the rule's own shape)
		if len(r.Peers) == 0 && len(r.Ports)%2 == 1 {
			peers = []networkv1.NetworkPolicyPeer{}
		}
		if len(r.Ports) == 0 && len(r.Peers)%2 == 1 {
			ports = []networkv1.NetworkPolicyPort{}
		}
		return peers, ports
	}
	for _, r := range p.Ingress {
		peers, ports := conv(r)
		np.Spec.Ingress = append(np.Spec.Ingress, networkv1.NetworkPolicyIngressRule{From: peers, Ports: ports})
	}
	for _, r := range p.Egress {
		peers, ports := conv(r)
		np.Spec.Egress = append(np.Spec.Egress, networkv1.NetworkPolicyEgressRule{To: peers, Ports: ports})
	}
	return np
}

func (p PodT) toK8s() *corev1.Pod {
	pod := &corev1.Pod{ObjectMeta: metav1.ObjectMeta{Name: p.Name, Namespace: p.Ns, Labels: map[string]string{}}}
	for k, v := range p.Labels {
		pod.Labels[k] = v
	}
	pod.Status.PodIP = p.IP
	pod.Spec.NodeName = "node-remote"
	if p.Local {
		pod.Spec.NodeName = LocalNode
	}
	return pod
}

// ---- generators ----

var labelKeys = []string{"app", "tier"}
var labelVals = []string{"a", "b"}

func genLabels(t *rapid.T, tag string) map[string]string {
	m := map[string]string{}
	for _, k := range labelKeys {
		if rapid.IntRange(0, 2).Draw(t, tag+"Has") > 0 {
			m[k] = rapid.SampledFrom(labelVals).Draw(t, tag+"Val")
		}
	}
	return m
}

func genSel(t *rapid.T, tag string, allowNil bool) SelT {
	s := SelT{}
	switch rapid.IntRange(0, 5).Draw(t, tag+"Kind") {
	case 0:
		if allowNil {
			s.Nil = true
		}
	case 1: // empty selector: everything
	case 2, 3:
		s.Labels = map[string]string{rapid.SampledFrom(labelKeys).Draw(t, tag+"K"): rapid.SampledFrom(labelVals).Draw(t, tag+"V")}
	case 4:
		s.ExprKey = rapid.SampledFrom(labelKeys).Draw(t, tag+"EK")
		s.ExprOp = rapid.SampledFrom([]string{"In", "NotIn", "Exists", "DoesNotExist"}).Draw(t, tag+"Op")
		if s.ExprOp == "In" || s.ExprOp == "NotIn" {
			s.ExprVal = []string{rapid.SampledFrom(labelVals).Draw(t, tag+"EV")}
		}
	case 5:
		s.Labels = genLabels(t, tag+"L")
	}
	return s
}

var ipBlocks = []struct {
	cidr   string
	except []string
}{
	{"192.168.10.0/24", nil},
	{"192.168.10.0/24", []string{"192.168.10.128/25"}},
	{"192.168.0.0/16", []string{"192.168.10.0/24", "192.168.20.5/32"}},
	{"10.20.0.0/16", []string{"10.20.1.0/24"}},
	{"10.20.1.0/24", nil},
	{"172.31.0.4/32", nil},
}

// GenOpts restricts the policy generator (used to exclude confirmed findings by construction).
type GenOpts struct {
	NoIPBlock, NoNsSelector, NoCombined, NoEmptyPeers, NoEgress, NoPorts, SingleIPBlock bool
}

func genRule(t *rapid.T, tag string, o GenOpts) RuleT {
	r := RuleT{}
	n := rapid.IntRange(0, 3).Draw(t, tag+"nPeers")
	if o.NoEmptyPeers && n == 0 {
		n = 1
	}
	for i := 0; i < n; i++ {
		var p PeerT
		kind := rapid.IntRange(0, 4).Draw(t, tag+"peerKind")
		if o.NoIPBlock && kind == 3 {
			kind = 0
		}
		if o.SingleIPBlock && kind == 3 {
			for _, q := range r.Peers {
				if q.CIDR != "" {
					kind = 0 // several ipBlocks of one rule are merged into one set (conflicting elements: see C16's findings)
				}
			}
		}
		if o.NoNsSelector && kind == 1 {
			kind = 0
		}
		if o.NoCombined && kind == 2 {
			kind = 0
		}
		switch kind {
		case 0, 4:
			p.Pod = genSel(t, tag+"pp", false)
			p.Ns = SelT{Nil: true}
		case 1:
			p.Pod = SelT{Nil: true}
			p.Ns = genSel(t, tag+"pn", false)
		case 2:
			p.Pod = genSel(t, tag+"cp", false)
			p.Ns = genSel(t, tag+"cn", false)
		case 3:
			b := rapid.SampledFrom(ipBlocks).Draw(t, tag+"block")
			p.CIDR, p.Except = b.cidr, b.except
			p.Pod, p.Ns = SelT{Nil: true}, SelT{Nil: true}
		}
		r.Peers = append(r.Peers, p)
	}
	if !o.NoPorts {
		np := rapid.IntRange(0, 2).Draw(t, tag+"nPorts")
		for i := 0; i < np; i++ {
			r.Ports = append(r.Ports, PortT{Proto: rapid.SampledFrom([]string{"", "TCP", "UDP"}).Draw(t, tag+"proto"),
				Port: rapid.SampledFrom([]int{80, 443, 53, 8080}).Draw(t, tag+"port")})
		}
	}
	return r
}

func genPolicy(t *rapid.T, i int, nss []NsT, o GenOpts) PolicyT {
	p := PolicyT{Ns: nss[rapid.IntRange(0, len(nss)-1).Draw(t, "polNs")].Name, Name: fmt.Sprintf("np%d", i), Sel: genSel(t, "polSel", false)}
	switch rapid.IntRange(0, 4).Draw(t, "types") {
	case 0: // omitted
	case 1:
		p.Types = []string{"Ingress"}
	case 2:
		p.Types = []string{"Egress"}
	default:
		p.Types = []string{"Ingress", "Egress"}
	}
	if o.NoEgress {
		p.Types = []string{"Ingress"}
	}
	ni := rapid.IntRange(0, 2).Draw(t, "nIngress")
	for j := 0; j < ni; j++ {
		p.Ingress = append(p.Ingress, genRule(t, "in", o))
	}
	if !o.NoEgress {
		ne := rapid.IntRange(0, 2).Draw(t, "nEgress")
		for j := 0; j < ne; j++ {
			p.Egress = append(p.Egress, genRule(t, "eg", o))
		}
	}
	return p
}

func GenCluster(t *rapid.T, o GenOpts) ClusterT {
	c := ClusterT{}
	nn := rapid.IntRange(2, 4).Draw(t, "nNs")
	for i := 0; i < nn; i++ {
		c.Namespaces = append(c.Namespaces, NsT{Name: fmt.Sprintf("ns%d", i), Labels: genLabels(t, "nsL")})
	}
	np := rapid.IntRange(3, 10).Draw(t, "nPods")
	for i := 0; i < np; i++ {
		p := PodT{Ns: c.Namespaces[rapid.IntRange(0, nn-1).Draw(t, "podNs")].Name, Name: fmt.Sprintf("p%d", i), Labels: genLabels(t, "podL"),
			IP: fmt.Sprintf("10.20.%d.%d", i%2, 10+i), Local: rapid.IntRange(0, 2).Draw(t, "local") > 0}
		if rapid.IntRange(0, 11).Draw(t, "noIP") == 0 {
			p.IP = ""
		}
		c.Pods = append(c.Pods, p)
	}
	npol := rapid.IntRange(0, 5).Draw(t, "nPolicies")
	for i := 0; i < npol; i++ {
		c.Policies = append(c.Policies, genPolicy(t, i, c.Namespaces, o))
	}
	return c
}

// ---- a policy manager on strict fakes ----

type Sim struct {
	PM     *policy.PolicyManager
	IPT    *nf.IPTables
	Sets   *nf.IPSet
	podIdx cache.Indexer
	nsIdx  cache.Indexer
	polIdx cache.Indexer
	Kube   *k8sfake.Clientset
}

func newIndexer() cache.Indexer {
	return cache.NewIndexer(cache.MetaNamespaceKeyFunc, cache.Indexers{cache.NamespaceIndex: cache.MetaNamespaceIndexFunc})
}

// NewSim builds a policy manager over the given (possibly pre-seeded) fakes.
func NewSim(ipt *nf.IPTables, sets *nf.IPSet) *Sim {
	s := &Sim{IPT: ipt, Sets: sets, podIdx: newIndexer(), nsIdx: newIndexer(), polIdx: newIndexer(), Kube: k8sfake.NewSimpleClientset()}
	s.PM = policy.VerifNew(s.Kube, sets, ipt, LocalNode, corelister.NewPodLister(s.podIdx), corelister.NewNamespaceLister(s.nsIdx),
		netlister.NewNetworkPolicyLister(s.polIdx), true)
	return s
}

// Load replaces the lister contents with the cluster state.
func (s *Sim) Load(c ClusterT) {
	for _, idx := range []cache.Indexer{s.podIdx, s.nsIdx, s.polIdx} {
		for _, o := range idx.List() {
			_ = idx.Delete(o)
		}
	}
	for _, n := range c.Namespaces {
		_ = s.nsIdx.Add(&corev1.Namespace{ObjectMeta: metav1.ObjectMeta{Name: n.Name, Labels: n.Labels}})
	}
	for _, p := range c.Pods {
		_ = s.podIdx.Add(p.toK8s())
	}
	for _, p := range c.Policies {
		_ = s.polIdx.Add(p.toK8s())
	}
}

// SetPolicy adds/updates or removes one policy in the lister (what the informer does before it calls the handler).
func (s *Sim) SetPolicy(p PolicyT, present bool) {
	if present {
		_ = s.polIdx.Add(p.toK8s())
	} else {
		_ = s.polIdx.Delete(p.toK8s())
	}
}

func isGLX(name string) bool { return len(name) >= 3 && name[:3] == "GLX" }

// OwnState renders the GLX-owned chains and sets canonically: policy-chain rules in order, pod-chain jumps as a
// multiset between the conntrack rule and the final DROP, hook chains as multisets, sets with sorted members.
func (s *Sim) OwnState() string {
	tb := s.IPT.Snapshot("filter")
	var names []string
	for n := range tb.Chains {
		if isGLX(n) {
			names = append(names, n)
		}
	}
	sort.Strings(names)
	out := ""
	for _, n := range names {
		if (n == "GLX-INGRESS" || n == "GLX-EGRESS") && len(tb.Chains[n].Rules) == 0 {
			continue // an empty hook chain is equivalent to an absent one
		}
		out += ":" + n + "\n"
		var rules []string
		for _, r := range tb.Chains[n].Rules {
			rules = append(rules, r.String())
		}
		switch {
		case len(n) > 8 && n[:8] == "GLX-POD-" && len(rules) >= 2:
			mid := append([]string{}, rules[1:len(rules)-1]...)
			sort.Strings(mid)
			rules = append(append([]string{rules[0]}, mid...), rules[len(rules)-1])
		case n == "GLX-INGRESS" || n == "GLX-EGRESS":
			sort.Strings(rules)
		}
		for _, r := range rules {
			out += "-A " + n + " " + r + "\n"
		}
	}
	out += s.Sets.Dump(isGLX)
	return out
}

// ForeignState renders everything galaxy does not own (foreign chains, built-in chains without galaxy's hook jumps, foreign sets).
func (s *Sim) ForeignState() string {
	tb := s.IPT.Snapshot("filter")
	var names []string
	for n := range tb.Chains {
		if !isGLX(n) {
			names = append(names, n)
		}
	}
	sort.Strings(names)
	out := ""
	for _, n := range names {
		out += ":" + n + "\n"
		for _, r := range tb.Chains[n].Rules {
			if isGLX(r.Target()) {
				continue // galaxy's own hook rules in the built-in chains
			}
			out += "-A " + n + " " + r.String() + "\n"
		}
	}
	out += s.Sets.Dump(func(n string) bool { return !isGLX(n) })
	return out
}

// ToK8s converts the model objects (exported for the robustness checks).
func (p PodT) ToK8s() *corev1.Pod                 { return p.toK8s() }
func (p PolicyT) ToK8s() *networkv1.NetworkPolicy { return p.toK8s() }
