// Package netsim holds the checks of engine E3 (strict netfilter fakes): port mapping (C14), network policy
// convergence (C15) and semantics (C16).
package netsim

import (
	"fmt"
	"net"
	"os"
	"os/exec"
	"path/filepath"
	"sort"
	"strconv"
	"strings"
	"sync"
	"syscall"
	"testing"
	"time"

	"pgregory.net/rapid"
	"tkestack.io/galaxy/pkg/api/k8s"
	"tkestack.io/galaxy/pkg/network/portmapping"
	"verifharness/nf"
	"verifharness/vcore"
)

func TestMain(m *testing.M) {
	// C14 opens and probes real host ports: every test process moves into a private network namespace first, so that
	// parallel shards, other checks and unrelated processes of the machine cannot take or hold a port in between
	// (wildcard binds need no configured interface). Without namespace support the process stays where it is.
	if os.Getenv("VERIF_IN_NETNS") == "" {
		if path, err := exec.LookPath("unshare"); err == nil && exec.Command(path, "-n", "true").Run() == nil {
			env := append(os.Environ(), "VERIF_IN_NETNS=1")
			_ = syscall.Exec(path, append([]string{"unshare", "-n"}, os.Args...), env)
		}
		os.Setenv("VERIF_IN_NETNS", "0")
	}
	vcore.QuietKlog()
	os.Setenv("MY_NODE_NAME", "node-local")
	os.Exit(m.Run())
}

// ---------- C14: host-port mappings are set up, held and removed completely ----------

type pmPort struct {
	Host      int    `json:"host"` // -1 = random (host port 0), k >= 0 = k-th free port acquired for the case
	Container int    `json:"container"`
	Proto     string `json:"proto"`
	HostIP    string `json:"host_ip"`
}

type pmPod struct {
	Name  string   `json:"name"`
	IP    string   `json:"ip"`
	Ports []pmPort `json:"ports"`
}

type c14Case struct {
	Pods    []pmPod `json:"pods"`
	Others  []pmPod `json:"others"`  // pods whose mappings exist beforehand and must survive Setup/Clean of a pod
	Foreign int     `json:"foreign"` // number of foreign chains/rules in the nat table
	Stale   int     `json:"stale"`   // number of stale KUBE-HP-* chains with dangling KUBE-HOSTPORTS rules
	Target  int     `json:"target"`  // pod used for the Setup/Clean inverse law
	// Overlap >= 0: the teardown of that pod (random ports only) is overlapped by the set-up of its successor under the same name
	Overlap     int `json:"overlap,omitempty"`
	Repeat      int `json:"repeat"`       // >= 0: that pod (random ports only) is set up a second time without a teardown in between
	OccupyIndex int `json:"occupy_index"` // index of the explicit port the harness occupies for the failure path (-1 none)
	// Galaxy != nil: the case is a request history against the galaxy daemon (c14g_test.go) instead of calls of the handler
	Galaxy *c14gCase `json:"galaxy,omitempty"`
}

func genPMPod(t *rapid.T, name string, ipLast int, portBase *int) pmPod {
	p := pmPod{Name: name, IP: fmt.Sprintf("172.16.5.%d", ipLast)}
	n := rapid.IntRange(0, 4).Draw(t, "nPorts")
	for i := 0; i < n; i++ {
		port := pmPort{Container: rapid.IntRange(1, 65535).Draw(t, "cport"),
			Proto: rapid.SampledFrom([]string{"tcp", "TCP", "udp", "UDP", "Tcp"}).Draw(t, "proto")}
		if rapid.IntRange(0, 3).Draw(t, "random") == 0 {
			port.Host = -1
		} else {
			port.Host = *portBase
			*portBase++
		}
		if rapid.IntRange(0, 3).Draw(t, "hostIP") == 0 {
			port.HostIP = rapid.SampledFrom([]string{"10.1.1.1", "192.168.0.7"}).Draw(t, "hip")
		}
		p.Ports = append(p.Ports, port)
	}
	return p
}

// haveFakeCNI: the recording fake plugin binary was built next to the test binary (the driver does that for C14).
func haveFakeCNI() bool {
	_, err := os.Stat(filepath.Join(os.Getenv("VERIF_BIN_DIR"), "fakecni"))
	return os.Getenv("VERIF_BIN_DIR") != "" && err == nil
}

func genC14() *rapid.Generator[c14Case] {
	return rapid.Custom(func(t *rapid.T) c14Case {
		c := c14Case{OccupyIndex: -1, Repeat: -1, Overlap: -1}
		if haveFakeCNI() && rapid.IntRange(0, 2).Draw(t, "level") == 0 {
			// a third of the cases runs against the daemon's request path
			c.Galaxy = genC14G(t)
			return c
		}
		if rapid.IntRange(0, 2).Draw(t, "repeat") == 0 {
			c.Repeat = rapid.IntRange(0, 5).Draw(t, "repeatPod")
		}
		if rapid.IntRange(0, 3).Draw(t, "overlap") == 0 {
			c.Overlap = rapid.IntRange(0, 5).Draw(t, "overlapPod")
		}
		base := 0
		n := rapid.IntRange(1, 6).Draw(t, "nPods")
		for i := 0; i < n; i++ {
			c.Pods = append(c.Pods, genPMPod(t, fmt.Sprintf("pod%d_ns%d", i, i%2), 10+i, &base))
		}
		m := rapid.IntRange(0, 2).Draw(t, "nOthers")
		for i := 0; i < m; i++ {
			c.Others = append(c.Others, genPMPod(t, fmt.Sprintf("other%d_kube-system", i), 100+i, &base))
		}
		c.Foreign = rapid.IntRange(0, 3).Draw(t, "foreign")
		c.Stale = rapid.IntRange(0, 3).Draw(t, "stale")
		c.Target = rapid.IntRange(0, n-1).Draw(t, "target")
		if rapid.Bool().Draw(t, "occupy") {
			c.OccupyIndex = rapid.IntRange(0, 8).Draw(t, "occupyIdx")
		}
		return c
	})
}

// freePorts asks the kernel for n currently free port numbers (free for both tcp and udp).
func freePorts(n int) ([]int, error) {
	var out []int
	var held []interface{ Close() error }
	defer func() {
		for _, h := range held {
			h.Close()
		}
	}()
	for tries := 0; len(out) < n && tries < n*20; tries++ {
		l, err := net.Listen("tcp", ":0")
		if err != nil {
			return nil, err
		}
		port := l.Addr().(*net.TCPAddr).Port
		u, err := net.ListenUDP("udp", &net.UDPAddr{Port: port})
		if err != nil {
			l.Close()
			continue
		}
		held = append(held, l, u)
		out = append(out, port)
	}
	if len(out) < n {
		return nil, fmt.Errorf("could not find %d free ports", n)
	}
	return out, nil
}

func canBind(proto string, port int) bool {
	if strings.ToLower(proto) == "udp" {
		c, err := net.ListenUDP("udp", &net.UDPAddr{Port: port})
		if err != nil {
			return false
		}
		c.Close()
		return true
	}
	l, err := net.Listen("tcp", fmt.Sprintf(":%d", port))
	if err != nil {
		return false
	}
	l.Close()
	return true
}

func k8sPorts(p pmPod, free []int) []k8s.Port {
	var out []k8s.Port
	for _, pt := range p.Ports {
		hp := int32(0)
		if pt.Host >= 0 {
			hp = int32(free[pt.Host])
		}
		out = append(out, k8s.Port{HostPort: hp, ContainerPort: int32(pt.Container), Protocol: pt.Proto, HostIP: pt.HostIP, PodName: p.Name, PodIP: p.IP})
	}
	return out
}

func isHostportChain(n string) bool {
	return n == "KUBE-HOSTPORTS" || strings.HasPrefix(n, "KUBE-HP-")
}

// checkMappings verifies structurally that the nat table holds exactly the mappings of ports under KUBE-HOSTPORTS / KUBE-HP-*.
func checkMappings(tb *nf.Table, ports []k8s.Port, exact bool) *vcore.Failure {
	hp := tb.Chains["KUBE-HOSTPORTS"]
	if hp == nil {
		return vcore.Failf("c14:no_base", "KUBE-HOSTPORTS chain missing")
	}
	used := map[string]bool{}
	wantRules := 0
	seen := map[string]bool{}
	for _, p := range ports {
		key := fmt.Sprintf("%d/%s/%d/%s", p.HostPort, strings.ToLower(p.Protocol), p.ContainerPort, p.PodName)
		if seen[key] {
			continue
		}
		seen[key] = true
		wantRules++
		proto := strings.ToLower(p.Protocol)
		var chain string
		n := 0
		for _, r := range hp.Rules {
			s := " " + r.String() + " "
			if strings.Contains(s, fmt.Sprintf(" --dport %d ", p.HostPort)) && strings.Contains(s, " -p "+proto+" ") &&
				strings.Contains(s, p.PodName+" hostport") && (p.HostIP == "" || strings.Contains(s, " -d "+p.HostIP+"/32 ")) {
				tg := r.Target()
				c := tb.Chains[tg]
				if c == nil {
					continue
				}
				dn := false
				for _, cr := range c.Rules {
					if strings.Contains(cr.String(), fmt.Sprintf("--to-destination=%s:%d", p.PodIP, p.ContainerPort)) && cr.Target() == "DNAT" &&
						strings.Contains(" "+cr.String()+" ", " -p "+proto+" ") {
						dn = true
					}
				}
				if dn {
					n++
					chain = tg
				}
			}
		}
		if n == 0 {
			return vcore.Failf("c14:missing_mapping", "no KUBE-HOSTPORTS rule + DNAT chain for %s host port %d/%s -> %s:%d", p.PodName, p.HostPort, proto,
				p.PodIP, p.ContainerPort)
		}
		if exact && n != 1 {
			return vcore.Failf("c14:duplicate_mapping", "%d KUBE-HOSTPORTS rules for %s host port %d/%s", n, p.PodName, p.HostPort, proto)
		}
		used[chain] = true
	}
	if exact {
		if len(hp.Rules) != wantRules {
			return vcore.Failf("c14:extra_rule", "KUBE-HOSTPORTS holds %d rules, expected exactly %d:\n%s", len(hp.Rules), wantRules,
				tb.Filtered(func(n string) bool { return n == "KUBE-HOSTPORTS" }))
		}
		for n := range tb.Chains {
			if strings.HasPrefix(n, "KUBE-HP-") && !used[n] {
				return vcore.Failf("c14:stale_chain", "chain %s belongs to no given port but survived the full synchronisation", n)
			}
		}
	}
	return nil
}

func seedPrior(ipt *nf.IPTables, c *c14Case) {
	for i := 0; i < c.Foreign; i++ {
		ipt.Seed("nat", fmt.Sprintf("FOREIGN-%d", i), fmt.Sprintf("-s 10.%d.0.0/16 -j MASQUERADE", i), "-p tcp -m tcp --dport 53 -j RETURN")
		ipt.Seed("nat", "PREROUTING", fmt.Sprintf("-m comment --comment \"foreign rule %d\" -j FOREIGN-%d", i, i))
		ipt.Seed("nat", "POSTROUTING", fmt.Sprintf("-s 172.%d.0.0/16 -j MASQUERADE", 16+i))
	}
	for i := 0; i < c.Stale; i++ {
		ch := fmt.Sprintf("KUBE-HP-STALE%011d", i)
		ipt.Seed("nat", ch, fmt.Sprintf("-m comment --comment \"gone_ns hostport %d\" -s 172.16.9.%d/32 -j KUBE-MARK-MASQ", 30000+i, i+1),
			fmt.Sprintf("-m comment --comment \"gone_ns hostport %d\" -m tcp -p tcp -j DNAT --to-destination=172.16.9.%d:80", 30000+i, i+1))
		ipt.Seed("nat", "KUBE-HOSTPORTS", fmt.Sprintf("-m comment --comment \"gone_ns hostport %d\" -m tcp -p tcp --dport %d -j %s", 30000+i, 30000+i, ch))
	}
	if c.Stale > 0 {
		ipt.Seed("nat", "KUBE-MARK-MASQ", "-j MARK --set-xmark 0x4000/0x4000")
	}
}

func nonHostport(tb *nf.Table) string {
	return tb.Filtered(func(n string) bool { return !isHostportChain(n) && n != "KUBE-MARK-MASQ" })
}

func checkC14(c c14Case, r *vcore.Rec) *vcore.Failure {
	r.ClassIf(os.Getenv("VERIF_IN_NETNS") == "1", "private_netns")
	if c.Galaxy != nil {
		return checkC14G(c.Galaxy, r)
	}
	nExplicit := 0
	for _, p := range append(append([]pmPod{}, c.Pods...), c.Others...) {
		for _, pt := range p.Ports {
			if pt.Host >= nExplicit {
				nExplicit = pt.Host + 1
			}
		}
	}
	free, err := freePorts(nExplicit + 1)
	if err != nil {
		vcore.Extra("inconclusive_no_free_ports", 1)
		return nil
	}
	ipt := nf.NewIPTables(nil)
	h := portmapping.New("")
	h.Interface = ipt
	seedPrior(ipt, &c)
	before := ipt.Snapshot("nat")

	// ---- ports: handed out distinct, held while the pod lives, released afterwards
	type held struct {
		pod   string
		ports []k8s.Port
	}
	var helds []held
	var all []k8s.Port
	distinct := map[string]string{}
	for _, p := range c.Pods {
		ports := k8sPorts(p, free)
		if err := h.OpenHostports(p.Name, true, ports); err != nil {
			// an explicit port lost to an unrelated process between selection and use: inconclusive
			vcore.Extra("inconclusive_port_lost", 1)
			for _, hh := range helds {
				h.CloseHostports(hh.pod)
			}
			return nil
		}
		helds = append(helds, held{p.Name, ports})
		for _, pt := range ports {
			if pt.HostPort <= 0 {
				h.CloseHostports(p.Name)
				return vcore.Failf("c14:no_port", "pod %s: OpenHostports left host port %d for container port %d", p.Name, pt.HostPort, pt.ContainerPort)
			}
			k := fmt.Sprintf("%s/%d", strings.ToLower(pt.Protocol), pt.HostPort)
			if o, dup := distinct[k]; dup && o != p.Name+fmt.Sprint(pt.ContainerPort) {
				return vcore.Failf("c14:port_twice", "host port %s handed out twice (%s and %s)", k, o, p.Name)
			}
			distinct[k] = p.Name + fmt.Sprint(pt.ContainerPort)
			if canBind(pt.Protocol, int(pt.HostPort)) {
				return vcore.Failf("c14:not_held", "host port %s of pod %s can be bound by another process while the pod is alive", k, p.Name)
			}
		}
		all = append(all, ports...)
	}
	// ---- a pod set up again without a teardown in between (sandbox re-created before its DEL): the ports handed out by the
	// second setup are just as real
	if c.Repeat >= 0 && len(c.Pods) > 0 {
		idx := c.Repeat % len(c.Pods)
		p := c.Pods[idx]
		randomOnly := len(p.Ports) > 0
		for _, pt := range p.Ports {
			if pt.Host >= 0 {
				randomOnly = false // galaxy itself holds an explicit port, opening it again fails: not this scenario
			}
		}
		if randomOnly {
			ports2 := k8sPorts(p, free)
			if err := h.OpenHostports(p.Name, true, ports2); err == nil {
				r.Class("setup_repeated")
				for _, pt := range ports2 {
					if pt.HostPort <= 0 {
						return vcore.Failf("c14:no_port", "pod %s set up a second time: OpenHostports left host port %d for container port %d", p.Name,
							pt.HostPort, pt.ContainerPort)
					}
					if canBind(pt.Protocol, int(pt.HostPort)) {
						return vcore.Failf("c14:not_held", "host port %d/%s handed out by the second setup of pod %s can be bound by another process",
							pt.HostPort, pt.Protocol, p.Name)
					}
				}
				helds[idx].ports = ports2
				all = nil
				for _, hh := range helds {
					all = append(all, hh.ports...)
				}
			}
		}
	}
	defer func() {
		for _, hh := range helds {
			h.CloseHostports(hh.pod)
		}
	}()
	var otherPorts []k8s.Port
	for _, p := range c.Others {
		for _, pt := range k8sPorts(p, free) {
			if pt.HostPort > 0 {
				otherPorts = append(otherPorts, pt)
			}
		}
	}

	// ---- convergence: full synchronisation from arbitrary prior content
	full := append(append([]k8s.Port{}, all...), otherPorts...)
	if err := h.SetupPortMappingForAllPods(full); err != nil {
		return vcore.Failf("c14:sync_failed", "SetupPortMappingForAllPods failed: %v", err)
	}
	if len(ipt.Rejects) > 0 {
		return vcore.Failf("c14:rejected_batch", "the kernel model rejected: %s: %s", ipt.Rejects[0].Err, ipt.Rejects[0].Text)
	}
	after := ipt.Snapshot("nat")
	if f := checkMappings(after, full, true); f != nil {
		return f
	}
	// frame: nothing but the base rules galaxy ensures may differ outside its own chains
	strip := func(s string) string {
		var out []string
		for _, l := range strings.Split(s, "\n") {
			if strings.Contains(l, "kube hostport portals") {
				continue
			}
			out = append(out, l)
		}
		return strings.Join(out, "\n")
	}
	if strip(nonHostport(before)) != strip(nonHostport(after)) {
		return vcore.Failf("c14:foreign_changed", "chains that do not belong to galaxy changed:\n--- before\n%s--- after\n%s", nonHostport(before), nonHostport(after))
	}
	// idempotent
	if err := h.SetupPortMappingForAllPods(full); err != nil {
		return vcore.Failf("c14:sync_failed", "second SetupPortMappingForAllPods failed: %v", err)
	}
	again := ipt.Snapshot("nat")
	all2 := func(t *nf.Table) string { return t.Filtered(func(string) bool { return true }) }
	if all2(after) != all2(again) {
		return vcore.Failf("c14:not_idempotent", "a second full synchronisation changed the table:\n--- first\n%s--- second\n%s", all2(after), all2(again))
	}
	// from-anything == from-empty
	clean := nf.NewIPTables(nil)
	h2 := portmapping.New("")
	h2.Interface = clean
	if err := h2.SetupPortMappingForAllPods(full); err != nil {
		return vcore.Failf("c14:sync_failed", "SetupPortMappingForAllPods on an empty table failed: %v", err)
	}
	own := func(t *nf.Table) string { return t.Filtered(isHostportChain) }
	if own(clean.Snapshot("nat")) != own(again) {
		return vcore.Failf("c14:convergence", "synchronising from prior content differs from synchronising an empty table:\n--- from prior\n%s--- from empty\n%s",
			own(again), own(clean.Snapshot("nat")))
	}

	// ---- inverse: Clean(p) after the sync removes exactly p's chains and rules; Setup(p) restores them
	target := c.Pods[c.Target]
	var tports []k8s.Port
	for _, hh := range helds {
		if hh.pod == target.Name {
			tports = hh.ports
		}
	}
	if len(tports) > 0 {
		s0 := ipt.Snapshot("nat")
		if err := h.CleanPortMapping(tports); err != nil {
			return vcore.Failf("c14:clean_failed", "CleanPortMapping failed: %v", err)
		}
		s1 := ipt.Snapshot("nat")
		var rest []k8s.Port
		for _, p := range full {
			if p.PodName != target.Name {
				rest = append(rest, p)
			}
		}
		if f := checkMappings(s1, rest, true); f != nil {
			f.Msg = "after CleanPortMapping of " + target.Name + ": " + f.Msg
			return f
		}
		if nonHostport(s0) != nonHostport(s1) {
			return vcore.Failf("c14:foreign_changed", "CleanPortMapping changed chains that do not belong to galaxy")
		}
		if err := h.SetupPortMapping(tports); err != nil {
			return vcore.Failf("c14:setup_failed", "SetupPortMapping failed: %v", err)
		}
		s2 := ipt.Snapshot("nat")
		if f := checkMappings(s2, full, true); f != nil {
			f.Msg = "after SetupPortMapping of " + target.Name + ": " + f.Msg
			return f
		}
		if err := h.CleanPortMapping(tports); err != nil {
			return vcore.Failf("c14:clean_failed", "CleanPortMapping failed: %v", err)
		}
		s3 := ipt.Snapshot("nat")
		norm := func(t *nf.Table) string {
			lines := strings.Split(all2(t), "\n")
			sort.Strings(lines)
			return strings.Join(lines, "\n")
		}
		if norm(s1) != norm(s3) {
			return vcore.Failf("c14:inverse", "Setup then Clean of %s does not restore the table:\n--- before\n%s\n--- after\n%s", target.Name, all2(s1), all2(s3))
		}
		if len(ipt.Rejects) > 0 {
			return vcore.Failf("c14:rejected_batch", "the kernel model rejected: %s: %s", ipt.Rejects[0].Err, ipt.Rejects[0].Text)
		}
	}

	// ---- release: after CloseHostports every handed-out port can be bound again
	overlapAt := -1
	for k := 0; c.Overlap >= 0 && k < len(helds) && overlapAt < 0; k++ {
		// the first pod with random ports only, looking from the drawn index
		hi := (c.Overlap + k) % len(helds)
		ok := len(c.Pods[hi].Ports) > 0
		for _, pt := range c.Pods[hi].Ports {
			ok = ok && pt.Host < 0
		}
		if ok {
			overlapAt = hi
		}
	}
	for hi, hh := range helds {
		if hi == overlapAt {
			if f := overlappedTeardown(h, c.Pods[hi], free, r); f != nil {
				return f
			}
		}
		h.CloseHostports(hh.pod)
		for _, pt := range hh.ports {
			if !canBind(pt.Protocol, int(pt.HostPort)) {
				vcore.Extra("inconclusive_port_taken_after_close", 1)
			}
		}
	}
	helds = nil

	// ---- failed setup leaves no port open
	if c.OccupyIndex >= 0 {
		var cand *pmPod
		for i := range c.Pods {
			nExp := 0
			for _, pt := range c.Pods[i].Ports {
				if pt.Host >= 0 {
					nExp++
				}
			}
			if nExp >= 1 && len(c.Pods[i].Ports) >= 2 {
				cand = &c.Pods[i]
				break
			}
		}
		if cand != nil {
			ports := k8sPorts(*cand, free)
			var exp []int
			for i, pt := range ports {
				if pt.HostPort > 0 {
					exp = append(exp, i)
				}
			}
			oi := exp[c.OccupyIndex%len(exp)]
			var occ interface{ Close() error }
			if strings.ToLower(ports[oi].Protocol) == "udp" {
				occ, err = net.ListenUDP("udp", &net.UDPAddr{Port: int(ports[oi].HostPort)})
			} else {
				occ, err = net.Listen("tcp", fmt.Sprintf(":%d", ports[oi].HostPort))
			}
			if err == nil {
				oerr := h.OpenHostports(cand.Name, true, ports)
				if oerr == nil {
					occ.Close()
					h.CloseHostports(cand.Name)
					return vcore.Failf("c14:taken_port_accepted", "OpenHostports succeeded although host port %d/%s is held by another process", ports[oi].HostPort,
						ports[oi].Protocol)
				}
				for i, pt := range ports {
					if i == oi || pt.HostPort <= 0 {
						continue
					}
					if !canBind(pt.Protocol, int(pt.HostPort)) {
						occ.Close()
						return vcore.Failf("c14:port_left_open", "OpenHostports failed (%v) but host port %d/%s it opened is still held", oerr, pt.HostPort, pt.Protocol)
					}
				}
				occ.Close()
				r.Class("failed_setup_checked")
			}
		}
	}
	r.ClassIf(c.Stale > 0, "stale_galaxy_chains")
	r.ClassIf(c.Foreign > 0, "foreign_rules")
	r.ClassIf(len(full) > 0, "has_ports")
	if c.Stale > 0 && c.Foreign > 0 && len(c.Pods) >= 2 && len(full) > 0 {
		r.NonTrivial()
	}
	return nil
}

// overlappedTeardown: the DEL of a pod and the ADD of its successor under the same name (a statefulset pod re-created on the node,
// kubelet repeating a DEL) overlap: as soon as the teardown has closed a socket the set-up of the successor starts in another
// goroutine. Whatever the order in which the handler serialises the two, the successor's ports are held while it lives and free after
// ITS teardown. (The wait inside the callback only gives the successor time to run; code that serialises both under the handler lock
// simply lets it expire.)
func overlappedTeardown(h *portmapping.PortMappingHandler, p pmPod, free []int, r *vcore.Rec) *vcore.Failure {
	for _, pt := range p.Ports {
		if pt.Host >= 0 {
			return nil // an explicit port: the successor cannot open it while the predecessor holds it - not this scenario
		}
	}
	if len(p.Ports) == 0 {
		return nil
	}
	ports2 := k8sPorts(p, free)
	done := make(chan error, 1)
	var once sync.Once
	if h.VerifAfterClose(p.Name, func() {
		once.Do(func() {
			fin := make(chan struct{})
			go func() {
				done <- h.OpenHostports(p.Name, true, ports2)
				close(fin)
			}()
			select {
			case <-fin:
			case <-time.After(40 * time.Millisecond):
			}
		})
	}) == 0 {
		return nil
	}
	h.CloseHostports(p.Name)
	if err := <-done; err != nil {
		vcore.Extra("inconclusive_port_lost", 1)
		h.CloseHostports(p.Name)
		return nil
	}
	r.Class("teardown_overlapped_by_successor_setup")
	for _, pt := range ports2 {
		if pt.HostPort > 0 && canBind(pt.Protocol, int(pt.HostPort)) {
			h.CloseHostports(p.Name)
			return vcore.Failf("c14:not_held", "host port %d/%s of pod %s (set up while its predecessor was torn down) can be bound by another process",
				pt.HostPort, pt.Protocol, p.Name)
		}
	}
	h.CloseHostports(p.Name)
	for _, pt := range ports2 {
		if pt.HostPort > 0 && !canBind(pt.Protocol, int(pt.HostPort)) {
			if h.VerifHeld(p.Name) == 0 && ownsPort(pt.Protocol, int(pt.HostPort)) {
				return vcore.Failf("c14:not_released", "host port %d/%s of pod %s (set up while its predecessor was torn down) is still bound after the pod's "+
					"own teardown, and the handler no longer knows the socket", pt.HostPort, pt.Protocol, p.Name)
			}
			vcore.Extra("inconclusive_port_taken_after_close", 1)
		}
	}
	return nil
}

// ownsPort: a socket of THIS process is bound to the port (so it is not some other process that took a just-released port)
func ownsPort(proto string, port int) bool {
	data, err := os.ReadFile("/proc/net/" + strings.ToLower(proto))
	if err != nil {
		return false
	}
	inodes := map[string]bool{}
	for _, line := range strings.Split(string(data), "\n")[1:] {
		f := strings.Fields(line)
		if len(f) < 10 {
			continue
		}
		i := strings.LastIndex(f[1], ":")
		if i < 0 {
			continue
		}
		if v, err := strconv.ParseInt(f[1][i+1:], 16, 32); err == nil && int(v) == port {
			inodes[f[9]] = true
		}
	}
	for _, fam := range []string{"6"} {
		if d6, err := os.ReadFile("/proc/net/" + strings.ToLower(proto) + fam); err == nil {
			for _, line := range strings.Split(string(d6), "\n")[1:] {
				f := strings.Fields(line)
				if len(f) < 10 {
					continue
				}
				i := strings.LastIndex(f[1], ":")
				if v, err := strconv.ParseInt(f[1][i+1:], 16, 32); i >= 0 && err == nil && int(v) == port {
					inodes[f[9]] = true
				}
			}
		}
	}
	fds, _ := os.ReadDir("/proc/self/fd")
	for _, fd := range fds {
		if l, err := os.Readlink("/proc/self/fd/" + fd.Name()); err == nil && strings.HasPrefix(l, "socket:[") {
			if inodes[strings.TrimSuffix(strings.TrimPrefix(l, "socket:["), "]")] {
				return true
			}
		}
	}
	return false
}

func TestC14(t *testing.T) { vcore.Run(t, "C14", genC14(), checkC14) }
