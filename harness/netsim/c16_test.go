package netsim

import (
	"fmt"
	"net"
	"sort"
	"strings"
	"testing"

	"pgregory.net/rapid"
	"verifharness/nf"
	"verifharness/vcore"
)

// ---------- C16: installed rules enforce Kubernetes NetworkPolicy semantics ----------

// Dev is a set of known deviations of galaxy's compiled rules from the Kubernetes semantics (each one is a recorded
// finding, see known_findings.txt). The reference evaluator with an empty Dev is the Kubernetes API semantics.
type Dev struct {
	E bool // a rule with an empty from/to matches nothing (instead of everything)
	A bool // a podSelector-only peer matches pods of all namespaces (instead of the policy's namespace)
	C bool // a peer with namespaceSelector+podSelector ignores the namespaceSelector
	S bool // ingress and egress rules of every policy selecting the pod share the pod's chain: either kind grants either direction
	F bool // the source pod's chain decides alone: its ACCEPT skips the destination's ingress check on the same node
	M bool // the ipBlocks of one rule are merged into one set, except entries of one block also cut holes into the others
	Z bool // an ipBlock of 0.0.0.0/0 cannot be stored in a hash:net set and matches nothing
}

func (d Dev) String() string {
	s := ""
	for _, x := range []struct {
		on bool
		n  string
	}{{d.E, "E"}, {d.A, "A"}, {d.C, "C"}, {d.S, "S"}, {d.F, "F"}, {d.M, "M"}, {d.Z, "Z"}} {
		if x.on {
			s += x.n
		}
	}
	return s
}

type endpoint struct {
	ip  string
	pod *PodT
}

type flow struct {
	src, dst endpoint
	proto    string
	dport    int
}

type evaluator struct {
	c  *ClusterT
	ns map[string]NsT
	// hist: earlier states whose changes were only seen by the pod event handlers. Those handlers add an address to the ipsets
	// the pod newly belongs to and remove nothing before the next full synchronisation: with hist set, ipset membership (peer
	// sets and a policy's target set) is the union over these states and the current one, everything else is the current state.
	hist []*ClusterT
}

// versions returns the pod behind an endpoint in the current state and in the earlier states (matched by address).
func (e *evaluator) versions(ep endpoint) []*PodT {
	var out []*PodT
	if ep.pod != nil {
		out = append(out, ep.pod)
	}
	if ep.ip == "" {
		return out
	}
	for _, h := range e.hist {
		for i := range h.Pods {
			if h.Pods[i].IP == ep.ip {
				out = append(out, &h.Pods[i])
			}
		}
	}
	return out
}

// inTargetSet: is the endpoint's address a member of the policy's target ipset?
func (e *evaluator) inTargetSet(p *PolicyT, ep endpoint) bool {
	for _, v := range e.versions(ep) {
		if e.selected(p, v) {
			return true
		}
	}
	return false
}

func (e *evaluator) selected(p *PolicyT, pod *PodT) bool {
	return pod != nil && pod.Ns == p.Ns && p.Sel.matches(pod.Labels)
}

func typesOf(p *PolicyT) (ing, eg bool) {
	for _, t := range p.Types {
		if t == "Ingress" {
			ing = true
		}
		if t == "Egress" {
			eg = true
		}
	}
	if len(p.Types) == 0 {
		ing = true
		eg = len(p.Egress) > 0
	}
	return
}

func ipIn(ip, cidr string) bool {
	_, n, err := net.ParseCIDR(cidr)
	if err != nil {
		return false
	}
	return n.Contains(net.ParseIP(ip))
}

func (e *evaluator) peersMatch(p *PolicyT, r *RuleT, ep endpoint, d Dev) bool {
	if len(r.Peers) == 0 {
		return !d.E
	}
	type elem struct {
		cidr    string
		nomatch bool
	}
	var merged []elem
	seen := map[string]bool{}
	for _, pe := range r.Peers {
		if pe.CIDR != "" {
			if d.M {
				for _, el := range append([]elem{{pe.CIDR, false}}, func() []elem {
					var x []elem
					for _, ex := range pe.Except {
						x = append(x, elem{ex, true})
					}
					return x
				}()...) {
					_, n, _ := net.ParseCIDR(el.cidr)
					if ones, _ := n.Mask.Size(); ones == 0 && d.Z {
						continue
					}
					if !seen[n.String()] {
						seen[n.String()] = true
						merged = append(merged, elem{n.String(), el.nomatch})
					}
				}
				continue
			}
			if _, n, _ := net.ParseCIDR(pe.CIDR); d.Z && func() bool { o, _ := n.Mask.Size(); return o == 0 }() {
				continue
			}
			if ipIn(ep.ip, pe.CIDR) {
				ex := false
				for _, x := range pe.Except {
					if ipIn(ep.ip, x) {
						ex = true
					}
				}
				if !ex {
					return true
				}
			}
			continue
		}
		for _, v := range e.versions(ep) {
			switch {
			case !pe.Pod.Nil && pe.Ns.Nil:
				if pe.Pod.matches(v.Labels) && (d.A || v.Ns == p.Ns) {
					return true
				}
			case pe.Pod.Nil && !pe.Ns.Nil:
				if pe.Ns.matches(e.ns[v.Ns].Labels) {
					return true
				}
			case !pe.Pod.Nil && !pe.Ns.Nil:
				if pe.Pod.matches(v.Labels) && (d.C || pe.Ns.matches(e.ns[v.Ns].Labels)) {
					return true
				}
			}
		}
	}
	if d.M && len(merged) > 0 {
		best, bestLen, found := false, -1, false
		for _, el := range merged {
			if ipIn(ep.ip, el.cidr) {
				_, n, _ := net.ParseCIDR(el.cidr)
				l, _ := n.Mask.Size()
				if l > bestLen {
					bestLen, best, found = l, el.nomatch, true
				}
			}
		}
		if found && !best {
			return true
		}
	}
	return false
}

func portsMatch(r *RuleT, proto string, dport int) bool {
	if len(r.Ports) == 0 {
		return true
	}
	for _, po := range r.Ports {
		pp := strings.ToLower(po.Proto)
		if pp == "" {
			pp = "tcp"
		}
		if pp == proto && (po.Port == 0 || po.Port == dport) {
			return true
		}
	}
	return false
}

// grants: does some rule let the flow pass at pod P in direction dir ("ingress": P is the destination)?
func (e *evaluator) grants(P *PodT, dir string, f flow, d Dev) bool {
	for i := range e.c.Policies {
		p := &e.c.Policies[i]
		if !e.selected(p, P) {
			continue
		}
		ing, eg := typesOf(p)
		useIn := ing && (dir == "ingress" || d.S)
		useEg := eg && (dir == "egress" || d.S)
		if useIn {
			for j := range p.Ingress {
				r := &p.Ingress[j]
				if e.peersMatch(p, r, f.src, d) && e.inTargetSet(p, f.dst) && portsMatch(r, f.proto, f.dport) {
					return true
				}
			}
		}
		if useEg {
			for j := range p.Egress {
				r := &p.Egress[j]
				if e.inTargetSet(p, f.src) && e.peersMatch(p, r, f.dst, d) && portsMatch(r, f.proto, f.dport) {
					return true
				}
			}
		}
	}
	return false
}

func (e *evaluator) isolated(P *PodT, dir string) bool {
	if P == nil || !P.Local || P.IP == "" {
		return false
	}
	for i := range e.c.Policies {
		p := &e.c.Policies[i]
		if !e.selected(p, P) {
			continue
		}
		ing, eg := typesOf(p)
		if (dir == "ingress" && ing) || (dir == "egress" && eg) {
			return true
		}
	}
	return false
}

// allowed is the verdict for the first packet of a new connection traversing this node.
func (e *evaluator) allowed(f flow, d Dev) bool {
	srcIso := e.isolated(f.src.pod, "egress")
	dstIso := e.isolated(f.dst.pod, "ingress")
	if d.F {
		if srcIso {
			return e.grants(f.src.pod, "egress", f, d)
		}
		if dstIso {
			return e.grants(f.dst.pod, "ingress", f, d)
		}
		return true
	}
	if srcIso && !e.grants(f.src.pod, "egress", f, d) {
		return false
	}
	if dstIso && !e.grants(f.dst.pod, "ingress", f, d) {
		return false
	}
	return true
}

type c16Case struct {
	Cluster ClusterT `json:"cluster"`
	// Then: the cluster after some pod changes (same namespaces and policies) which reach galaxy as pod events only
	Then ClusterT `json:"then,omitempty"`
}

var c16Blocks = append(append([]struct {
	cidr   string
	except []string
}{}, ipBlocks...), struct {
	cidr   string
	except []string
}{"0.0.0.0/0", []string{"10.20.0.0/16"}})

func genC16() *rapid.Generator[c16Case] {
	return rapid.Custom(func(t *rapid.T) c16Case {
		c := c16Case{Cluster: GenCluster(t, GenOpts{})}
		// occasionally an allow-everything-but block
		for i := range c.Cluster.Policies {
			for j := range c.Cluster.Policies[i].Ingress {
				for k := range c.Cluster.Policies[i].Ingress[j].Peers {
					if pe := &c.Cluster.Policies[i].Ingress[j].Peers[k]; pe.CIDR != "" && rapid.IntRange(0, 7).Draw(t, "slash0") == 0 {
						pe.CIDR, pe.Except = "0.0.0.0/0", []string{"10.20.0.0/16"}
					}
				}
			}
		}
		if rapid.Bool().Draw(t, "withEvents") {
			c.Then = mutateCluster(t, c.Cluster, GenOpts{}, true)
			c.Then.Policies = c.Cluster.Policies
		}
		return c
	})
}

func allDevs() []Dev {
	var out []Dev
	for m := 0; m < 128; m++ {
		if m&(1|2|4|64) != 0 {
			continue // deviations E, A, C and Z were repaired in the repository (fix: commits): they no longer excuse anything
		}
		out = append(out, Dev{E: m&1 != 0, A: m&2 != 0, C: m&4 != 0, S: m&8 != 0, F: m&16 != 0, M: m&32 != 0, Z: m&64 != 0})
	}
	sort.SliceStable(out, func(i, j int) bool { return len(out[i].String()) < len(out[j].String()) })
	return out
}

var devOrder = allDevs()

func checkC16(c c16Case, r *vcore.Rec) *vcore.Failure {
	sets := nf.NewIPSet()
	ipt := nf.NewIPTables(sets)
	s := NewSim(ipt, sets)
	s.Load(c.Cluster)
	s.PM.Run()
	s.PM.Run() // the periodic full sync runs again and again; the verdicts are taken after the second pass
	firstKnown, f := judgeC16(&c.Cluster, ipt, sets, r, "after two full syncs")
	if f != nil {
		return f
	}
	// pod events (relabel, new address, new pod, deletion) handled by the event handlers, no full sync: the installed rules must
	// follow the cluster
	if len(c.Then.Pods) > 0 || len(c.Then.Namespaces) > 0 {
		cur := c.Cluster
		states := []*ClusterT{&c.Cluster}
		for _, e := range diffEvents(c.Cluster, c.Then) {
			if e.kind != "podUpsert" && e.kind != "podDelete" {
				continue
			}
			cur = applyEvent(cur, e)
			snap := cur
			states = append(states, &snap)
			s.Load(cur)
			if e.kind == "podUpsert" {
				old := e.pod
				if e.old != nil {
					old = *e.old
				}
				_ = s.PM.UpdatePod(old.toK8s(), e.pod.toK8s())
			} else {
				_ = s.PM.DeletePod(e.pod.toK8s())
			}
			r.Logf("event %s %s/%s", e.kind, e.pod.Ns, e.pod.Name)
		}
		r.Class("judged_after_pod_events")
		known2, f := judgeC16(&cur, ipt, sets, r, "after pod events", states[:len(states)-1]...)
		if f != nil {
			return f
		}
		if firstKnown == nil {
			firstKnown = known2
		}
	}
	// a pod event handled in the middle of a periodic full synchronisation (the informer's handler goroutine and the sync loop are
	// different goroutines): a new local pod appears and its update event is handled while the pass is between two of its
	// iptables-save snapshots; once the pass is over the rules must enforce the policies for that pod as well
	if firstKnown == nil {
		for _, np := range c.Then.Pods {
			isNew := np.Local && np.IP != ""
			for _, op := range c.Cluster.Pods {
				if op.Ns == np.Ns && op.Name == np.Name || op.IP == np.IP {
					isNew = false
				}
			}
			if !isNew {
				continue
			}
			with := c.Cluster
			with.Pods = append(append([]PodT{}, c.Cluster.Pods...), np)
			// the pass takes several snapshots: the event is placed before each of them in turn
			for at := 1; at <= 6; at++ {
				sets2 := nf.NewIPSet()
				ipt2 := nf.NewIPTables(sets2)
				s2 := NewSim(ipt2, sets2)
				s2.Load(c.Cluster)
				s2.PM.Run()
				fired := 0
				ipt2.BeforeSave = func() {
					fired++
					if fired == at {
						s2.Load(with)
						_ = s2.PM.UpdatePod(np.toK8s(), np.toK8s())
					}
				}
				s2.PM.Run()
				ipt2.BeforeSave = nil
				if fired < at {
					break
				}
				r.Class("pod_event_during_full_sync")
				known3, f := judgeC16(&with, ipt2, sets2, r, fmt.Sprintf("after a pod event that arrived during a full sync (before its snapshot #%d)", at), &c.Cluster)
				if f != nil {
					return f
				}
				if firstKnown == nil {
					firstKnown = known3
				}
			}
			break
		}
	}
	if firstKnown != nil {
		return firstKnown
	}
	r.Class("agrees_with_kubernetes_semantics")
	return nil
}

// judgeC16 compares the verdict of the installed rules with the reference evaluator for every flow of the universe of cl.
// hist are earlier states of the cluster whose changes reached galaxy as pod events only: the event handlers add what a pod newly
// belongs to and leave what it no longer belongs to until the next full synchronisation, so a flow the rules still accept is not a
// mismatch if it was allowed in one of those states; a flow that is allowed now must be accepted.
func judgeC16(cl *ClusterT, ipt *nf.IPTables, sets *nf.IPSet, r *vcore.Rec, phase string, hist ...*ClusterT) (*vcore.Failure, *vcore.Failure) {
	tb := ipt.Snapshot("filter")
	ev := &evaluator{c: cl, ns: map[string]NsT{}}
	mixed := &evaluator{c: cl, ns: ev.ns, hist: hist}
	for _, n := range (*cl).Namespaces {
		ev.ns[n.Name] = n
	}
	// flow universe
	var eps []endpoint
	for i := range (*cl).Pods {
		if (*cl).Pods[i].IP != "" {
			eps = append(eps, endpoint{ip: (*cl).Pods[i].IP, pod: &(*cl).Pods[i]})
		}
	}
	ext := map[string]bool{"8.8.8.8": true, "192.168.10.7": true, "192.168.10.200": true, "192.168.20.5": true, "192.168.30.1": true,
		"10.20.1.200": true, "10.20.7.7": true, "172.31.0.4": true, "172.31.0.5": true}
	for ip := range ext {
		used := false
		for _, e := range eps {
			if e.ip == ip {
				used = true
			}
		}
		if !used {
			eps = append(eps, endpoint{ip: ip})
		}
	}
	sort.Slice(eps, func(i, j int) bool { return eps[i].ip < eps[j].ip })
	ports := map[int]bool{9999: true}
	for _, p := range (*cl).Policies {
		for _, rl := range append(append([]RuleT{}, p.Ingress...), p.Egress...) {
			for _, po := range rl.Ports {
				ports[po.Port] = true
			}
		}
	}
	var portList []int
	for p := range ports {
		portList = append(portList, p)
	}
	sort.Ints(portList)
	accepts, drops, flows := 0, 0, 0
	isolatedLocal := false
	for i := range (*cl).Pods {
		p := &(*cl).Pods[i]
		if ev.isolated(p, "ingress") || ev.isolated(p, "egress") {
			isolatedLocal = true
		}
	}
	known := map[string]int{}
	staleAccepts := 0
	var firstKnown *vcore.Failure
	for _, src := range eps {
		for _, dst := range eps {
			if src.ip == dst.ip {
				continue
			}
			srcLocal := src.pod != nil && src.pod.Local
			dstLocal := dst.pod != nil && dst.pod.Local
			if !srcLocal && !dstLocal {
				continue // does not traverse this node's pod hooks
			}
			for _, proto := range []string{"tcp", "udp"} {
				for _, dport := range portList {
					f := flow{src, dst, proto, dport}
					flows++
					got, err := nf.Verdict(tb, sets, nf.Packet{Hook: "FORWARD", Src: net.ParseIP(src.ip), Dst: net.ParseIP(dst.ip), Proto: proto, DPort: dport})
					if err != nil {
						return nil, vcore.Failf("c16:walker", "the installed rules cannot be evaluated: %v", err)
					}
					want := ev.allowed(f, Dev{})
					if got == "ACCEPT" {
						accepts++
					} else {
						drops++
					}
					if (got == "ACCEPT") == want {
						continue
					}
					// which recorded deviation(s) explain the verdict?
					expl := ""
					for _, d := range devOrder[1:] {
						if ev.allowed(f, d) == (got == "ACCEPT") {
							expl = d.String()
							break
						}
					}
					if expl == "" && got == "ACCEPT" && len(hist) > 0 {
						// ipset members left from an earlier state (no full synchronisation since)
						if mixed.allowed(f, Dev{}) {
							staleAccepts++
							continue
						}
						for _, d := range devOrder[1:] {
							if mixed.allowed(f, d) {
								expl = d.String()
								break
							}
						}
					}
					desc := fmt.Sprintf("%s %s(%s) -> %s(%s) port %d: installed rules say %s, Kubernetes semantics say allowed=%v", proto, src.ip, podName(src),
						dst.ip, podName(dst), dport, got, want)
					if expl == "" {
						return nil, vcore.Failf("c16:mismatch", "%s: %s; no recorded deviation explains it\nfilter table:\n%s%s", phase, desc,
							tb.Filtered(isGLX), sets.Dump(isGLX))
					}
					sig := "c16:deviation:" + expl
					if len(expl) > 1 {
						sig = "c16:deviation:combined"
					}
					known[sig]++
					if firstKnown == nil {
						firstKnown = vcore.Failf(sig, "%s (explained by recorded deviation %s)", desc, expl)
					}
				}
			}
		}
	}
	vcore.Extra("flows", int64(flows))
	vcore.Extra("flows_still_accepted_from_an_earlier_state", int64(staleAccepts))
	for k, n := range known {
		vcore.Extra("flows_"+k, int64(n))
	}
	r.ClassIf(isolatedLocal, "isolated_local_pod")
	r.ClassIf(accepts > 0 && drops > 0, "accept_and_drop")
	if isolatedLocal && accepts > 0 && drops > 0 {
		r.NonTrivial()
	}
	return firstKnown, nil
}

func podName(e endpoint) string {
	if e.pod == nil {
		return "external"
	}
	loc := "remote"
	if e.pod.Local {
		loc = "local"
	}
	return e.pod.Ns + "/" + e.pod.Name + "," + loc
}

func TestC16(t *testing.T) { vcore.Run(t, "C16", genC16(), checkC16) }
