package netsim

import (
	"encoding/json"
	"fmt"
	"net"
	"os"
	"path/filepath"
	"sort"
	"strings"
	"sync"

	corev1 "k8s.io/api/core/v1"
	metav1 "k8s.io/apimachinery/pkg/apis/meta/v1"
	k8sfake "k8s.io/client-go/kubernetes/fake"
	"pgregory.net/rapid"
	"tkestack.io/galaxy/pkg/api/k8s"
	"tkestack.io/galaxy/pkg/galaxy"
	"tkestack.io/galaxy/pkg/network/portmapping"
	"verifharness/galaxysim"
	"verifharness/nf"
	"verifharness/vcore"
)

// ---------- C14 at the level of the galaxy daemon: CNI ADD / DEL requests of pods with host ports, a daemon restart and the
// GC's clean callback, on the real request path (pkg/galaxy/server.go), a recording fake CNI plugin, the strict nat-table fake and
// real sockets ----------

type c14gPod struct {
	Name  string   `json:"name"`
	Annot bool     `json:"annot"` // carries the port-mapping annotation: host port 0 means "pick a random one"
	Ports []pmPort `json:"ports"`
}

type c14gOp struct {
	K       string `json:"k"` // add | del | restart | gc | resandbox (DEL + ADD of a new container for the same pod object) | terminate (the pod object gets a deletion timestamp; its sandbox lives on until DEL)
	Pod     int    `json:"pod"`
	FailCNI bool   `json:"fail_cni,omitempty"`
	FailIpt int    `json:"fail_ipt,omitempty"` // the n-th modifying iptables call of this request fails (0: none)
}

type c14gCase struct {
	Pods     []c14gPod `json:"pods"`
	Ops      []c14gOp  `json:"ops"`
	Foreign  int       `json:"foreign"`
	Occupied []int     `json:"occupied,omitempty"` // indexes of explicit ports an unrelated process holds throughout
}

func genC14G(t *rapid.T) *c14gCase {
	c := &c14gCase{Foreign: rapid.IntRange(0, 2).Draw(t, "gForeign")}
	np := rapid.IntRange(1, 4).Draw(t, "gPods")
	for i := 0; i < np; i++ {
		p := c14gPod{Name: fmt.Sprintf("hp%d", i), Annot: rapid.Bool().Draw(t, "gAnnot")}
		for j, n := 0, rapid.IntRange(0, 3).Draw(t, "gPorts"); j < n; j++ {
			pt := pmPort{Container: []int{80, 443, 8080, 53}[rapid.IntRange(0, 3).Draw(t, "gCont")],
				Proto: rapid.SampledFrom([]string{"TCP", "UDP", "tcp"}).Draw(t, "gProto"), Host: -1}
			if rapid.IntRange(0, 2).Draw(t, "gExplicit") > 0 {
				pt.Host = rapid.IntRange(0, 3).Draw(t, "gHost") // a small universe: pods collide on explicit ports
			}
			if rapid.IntRange(0, 5).Draw(t, "gHostIP") == 0 {
				pt.HostIP = "127.0.0.1"
			}
			p.Ports = append(p.Ports, pt)
		}
		c.Pods = append(c.Pods, p)
	}
	if rapid.IntRange(0, 3).Draw(t, "gOccupy") == 0 {
		c.Occupied = []int{rapid.IntRange(0, 3).Draw(t, "gOccupied")}
	}
	for i, n := 0, rapid.IntRange(2, 12).Draw(t, "gOps"); i < n; i++ {
		op := c14gOp{K: rapid.SampledFrom([]string{"add", "add", "add", "del", "del", "restart", "restart", "gc", "terminate", "resandbox"}).Draw(t, "gOp"),
			Pod: rapid.IntRange(0, np-1).Draw(t, "gPod")}
		if op.K == "add" || op.K == "del" || op.K == "resandbox" {
			switch rapid.IntRange(0, 5).Draw(t, "gFault") {
			case 0:
				op.FailCNI = op.K != "del"
			case 1:
				op.FailIpt = rapid.IntRange(1, 8).Draw(t, "gFailIpt")
			}
		}
		c.Ops = append(c.Ops, op)
	}
	return c
}

var (
	c14gEnvOnce sync.Once
	c14gEnv     *galaxysim.Env
	c14gEnvErr  error
)

type c14gLive struct {
	cid   string
	ip    string
	ports []k8s.Port // as galaxy recorded them (host ports assigned)
}

func c14gPodObject(p c14gPod, free []int) *corev1.Pod {
	ann := map[string]string{}
	if p.Annot {
		ann[k8s.PortMappingPortsAnnotation] = ""
	}
	pod := galaxysim.Pod("ns1", p.Name, ann, false)
	for _, pt := range p.Ports {
		hp := int32(0)
		if pt.Host >= 0 {
			hp = int32(free[pt.Host])
		}
		pod.Spec.Containers[0].Ports = append(pod.Spec.Containers[0].Ports, corev1.ContainerPort{HostPort: hp, ContainerPort: int32(pt.Container),
			Protocol: corev1.Protocol(strings.ToUpper(pt.Proto)), HostIP: pt.HostIP})
	}
	return pod
}

// wantsMapping mirrors the documented rule: an explicit host port is always mapped, host port 0 only with the annotation.
func wantsMapping(p c14gPod) int {
	n := 0
	for _, pt := range p.Ports {
		if pt.Host >= 0 || p.Annot {
			n++
		}
	}
	return n
}

func checkC14G(c *c14gCase, r *vcore.Rec) *vcore.Failure {
	c14gEnvOnce.Do(func() { c14gEnv, c14gEnvErr = galaxysim.NewEnv() })
	if c14gEnvErr != nil {
		panic(c14gEnvErr)
	}
	env := c14gEnv
	env.Reset()
	r.Class("galaxy_request_path")
	free, err := freePorts(5)
	if err != nil {
		vcore.Extra("inconclusive_no_free_ports", 1)
		return nil
	}
	// an unrelated process holding some of the explicit ports
	occupied := map[int]bool{}
	var closers []interface{ Close() error }
	defer func() {
		for _, cl := range closers {
			cl.Close()
		}
	}()
	for _, k := range c.Occupied {
		l, e1 := net.Listen("tcp", fmt.Sprintf(":%d", free[k]))
		u, e2 := net.ListenUDP("udp", &net.UDPAddr{Port: free[k]})
		if e1 != nil || e2 != nil {
			vcore.Extra("inconclusive_port_lost", 1)
			return nil
		}
		closers = append(closers, l, u)
		occupied[free[k]] = true
	}
	ipt := nf.NewIPTables(nil)
	seedPrior(ipt, &c14Case{Foreign: c.Foreign})
	kube := k8sfake.NewSimpleClientset()
	conf := galaxy.JsonConf{NetworkConf: []map[string]interface{}{{"name": "neta", "type": "fake-a", "cniVersion": "0.2.0"}},
		DefaultNetworks: []string{"neta"}}
	pmh := portmapping.New("")
	pmh.Interface = ipt
	d, err := galaxysim.NewDaemonWith(env, conf, env.Dir, kube, pmh)
	if err != nil {
		panic(err)
	}
	// a starting daemon installs its basic rules and synchronises the host ports of the pods on the node (none yet)
	if err := d.G.VerifSetupIPtables(); err != nil {
		return vcore.Failf("c14:restart_failed", "first start: setting up host ports failed: %v", err)
	}
	before := ipt.Snapshot("nat")
	live := map[int]*c14gLive{}
	var everCids []string
	everRandom := map[string]bool{} // proto/port of random ports handed out at some time
	defer func() {
		for _, cid := range everCids {
			galaxysim.RemoveState(cid)
		}
		for i := range c.Pods {
			pmh.CloseHostports(k8s.GetPodFullName(c.Pods[i].Name, "ns1"))
		}
	}()
	podsRes := corev1.SchemeGroupVersion.WithResource("pods")
	portFile := func(cid string) ([]k8s.Port, bool) {
		data, err := os.ReadFile(filepath.Join("/var/lib/cni/galaxy/port", cid))
		if err != nil {
			return nil, false
		}
		var ports []k8s.Port
		_ = json.Unmarshal(data, &ports)
		return ports, true
	}
	invariants := func(when string) *vcore.Failure {
		var all []k8s.Port
		heldKeys := map[string]string{}
		var idx []int
		for i := range live {
			idx = append(idx, i)
		}
		sort.Ints(idx)
		for _, i := range idx {
			l := live[i]
			for _, pt := range l.ports {
				k := fmt.Sprintf("%s/%d", strings.ToLower(pt.Protocol), pt.HostPort)
				if o, dup := heldKeys[k]; dup {
					return vcore.Failf("c14:port_twice", "%s: host port %s belongs to two live pods (%s and %s)", when, k, o, c.Pods[i].Name)
				}
				heldKeys[k] = c.Pods[i].Name
				if canBind(pt.Protocol, int(pt.HostPort)) {
					return vcore.Failf("c14:not_held", "%s: host port %s of live pod %s can be bound by another process", when, k, c.Pods[i].Name)
				}
			}
			all = append(all, l.ports...)
			if _, ok := portFile(l.cid); !ok && len(l.ports) > 0 {
				return vcore.Failf("c14:port_file_missing", "%s: live pod %s (container %s) has host ports but no saved port file: its rules could never be cleaned",
					when, c.Pods[i].Name, l.cid)
			}
		}
		// no port open that belongs to no live pod
		for _, fp := range free {
			for _, proto := range []string{"tcp", "udp"} {
				if heldKeys[fmt.Sprintf("%s/%d", proto, fp)] == "" && !occupied[fp] && !canBind(proto, fp) {
					return vcore.Failf("c14:port_left_open", "%s: host port %d/%s is still bound although no live pod owns it", when, fp, proto)
				}
			}
		}
		for k := range everRandom {
			if heldKeys[k] == "" {
				var proto string
				var port int
				fmt.Sscanf(strings.Replace(k, "/", " ", 1), "%s %d", &proto, &port)
				if !canBind(proto, port) {
					return vcore.Failf("c14:port_left_open", "%s: random host port %s is still bound although the pod it was handed to is gone", when, k)
				}
			}
		}
		tb := ipt.Snapshot("nat")
		if len(all) == 0 {
			if hp := tb.Chains["KUBE-HOSTPORTS"]; hp != nil && len(hp.Rules) > 0 {
				return vcore.Failf("c14:extra_rule", "%s: no live pod has a host port but KUBE-HOSTPORTS holds\n%s", when,
					tb.Filtered(func(n string) bool { return n == "KUBE-HOSTPORTS" }))
			}
			for n := range tb.Chains {
				if strings.HasPrefix(n, "KUBE-HP-") {
					return vcore.Failf("c14:stale_chain", "%s: no live pod has a host port but chain %s exists", when, n)
				}
			}
		} else if f := checkMappings(tb, all, true); f != nil {
			f.Msg = when + ": " + f.Msg
			return f
		}
		if nonHostport(before) != nonHostport(tb) {
			return vcore.Failf("c14:foreign_changed", "%s: chains that do not belong to galaxy changed:\n--- before\n%s--- after\n%s", when, nonHostport(before),
				nonHostport(tb))
		}
		if len(ipt.Rejects) > 0 {
			return vcore.Failf("c14:rejected_batch", "%s: the kernel model rejected: %s: %s", when, ipt.Rejects[0].Err, ipt.Rejects[0].Text)
		}
		return nil
	}
	del := func(i int, failIpt int) (int, string) {
		l := live[i]
		_ = kube.Tracker().Delete(podsRes, "ns1", c.Pods[i].Name) // the pod object goes away with its sandbox
		ipt.FailAt = failIpt
		code, body := d.Request("DEL", l.cid, "ns1", c.Pods[i].Name, "eth0", "")
		ipt.FailAt = 0
		return code, body
	}
	nAdd := 0
	for oi, op := range c.Ops {
		when := fmt.Sprintf("after op %d (%s %s)", oi, op.K, c.Pods[op.Pod].Name)
		p := c.Pods[op.Pod]
		switch op.K {
		case "add", "resandbox":
			keepObject := false
			if op.K == "resandbox" {
				// kubelet re-creates the sandbox of a pod that stays: DEL of the old container, ADD of a new one, same pod object (with
				// whatever galaxy wrote into its annotations)
				l := live[op.Pod]
				if l == nil {
					continue
				}
				if code, body := d.Request("DEL", l.cid, "ns1", p.Name, "eth0", ""); code != 200 {
					return vcore.Failf("c14:del_failed", "%s: DEL of the old sandbox answered %d %s", when, code, firstLine(body))
				}
				delete(live, op.Pod)
				keepObject = true
				r.Class("sandbox_recreated")
			} else if live[op.Pod] != nil {
				continue
			}
			nAdd++
			cid := galaxysim.ContainerID(fmt.Sprintf("g%d", nAdd))
			everCids = append(everCids, cid)
			ip := fmt.Sprintf("10.77.%d.%d", op.Pod, 1+nAdd%250)
			env.PinIP(cid, ip)
			if !keepObject {
				_ = kube.Tracker().Delete(podsRes, "ns1", p.Name)
				if err := kube.Tracker().Add(c14gPodObject(p, free)); err != nil {
					panic(err)
				}
			}
			if op.FailCNI {
				env.Fail(cid, "neta", "ADD", 1)
			}
			ipt.FailAt = op.FailIpt
			code, body := d.Request("ADD", cid, "ns1", p.Name, "eth0", "")
			fired := len(ipt.Failed) > 0
			ipt.FailAt, ipt.Failed = 0, nil
			r.Logf("%2d add %s cid=%s -> %d %s", oi, p.Name, cid, code, firstLine(body))
			if code == 200 {
				if op.FailCNI {
					return vcore.Failf("c14:add_succeeded", "%s: ADD answered 200 although the plugin failed", when)
				}
				l := &c14gLive{cid: cid, ip: ip}
				ports, ok := portFile(cid)
				if want := wantsMapping(p); want > 0 {
					if !ok || len(ports) != want {
						return vcore.Failf("c14:port_file_missing", "%s: ADD succeeded for a pod with %d host port(s) but the saved port file holds %d (exists=%v)",
							when, want, len(ports), ok)
					}
				}
				for _, pt := range ports {
					if pt.HostPort <= 0 {
						return vcore.Failf("c14:no_port", "%s: pod %s was set up with host port %d for container port %d", when, p.Name, pt.HostPort, pt.ContainerPort)
					}
					if pt.PodIP != ip {
						return vcore.Failf("c14:wrong_pod_ip", "%s: the mapping of pod %s points to %s, the plugin reported %s", when, p.Name, pt.PodIP, ip)
					}
				}
				var mapped []pmPort
				for _, sp := range p.Ports {
					if sp.Host >= 0 || p.Annot {
						mapped = append(mapped, sp)
					}
				}
				for j, pt := range ports {
					if j < len(mapped) && mapped[j].Host < 0 {
						everRandom[fmt.Sprintf("%s/%d", strings.ToLower(pt.Protocol), pt.HostPort)] = true
						r.Class("random_port")
					}
				}
				l.ports = ports
				live[op.Pod] = l
				if p.Annot && len(ports) > 0 {
					obj, err := kube.Tracker().Get(podsRes, "ns1", p.Name)
					if err != nil {
						panic(err)
					}
					var got []k8s.Port
					_ = json.Unmarshal([]byte(obj.(*corev1.Pod).Annotations[k8s.PortMappingPortsAnnotation]), &got)
					if fmt.Sprint(got) != fmt.Sprint(ports) {
						return vcore.Failf("c14:annotation", "%s: the port-mapping annotation of %s says %v, galaxy set up %v", when, p.Name, got, ports)
					}
				}
				// kubelet reports the pod's address
				if obj, err := kube.Tracker().Get(podsRes, "ns1", p.Name); err == nil {
					pod := obj.(*corev1.Pod).DeepCopy()
					pod.Status.PodIP = ip
					_ = kube.Tracker().Update(podsRes, pod, "ns1")
				}
				if len(ports) > 0 {
					r.Class("pod_with_hostports_added")
					r.NonTrivial()
				}
			} else {
				if op.FailCNI {
					r.Class("add_failed_plugin")
				} else if fired {
					r.Class("add_failed_iptables")
				} else {
					r.Class("add_failed_port_taken")
				}
				// "a failed setup leaves no port open": already when the ADD has answered, not only after kubelet's DEL
				others := map[string]bool{}
				for _, l := range live {
					for _, pt := range l.ports {
						others[fmt.Sprintf("%s/%d", strings.ToLower(pt.Protocol), pt.HostPort)] = true
					}
				}
				cand := c14gPodObject(p, free).Spec.Containers[0].Ports
				var tried []k8s.Port
				for _, cp := range cand {
					tried = append(tried, k8s.Port{HostPort: cp.HostPort, Protocol: string(cp.Protocol)})
				}
				saved, savedOK := portFile(cid)
				tried = append(tried, saved...)
				for _, pt := range tried {
					k := fmt.Sprintf("%s/%d", strings.ToLower(pt.Protocol), pt.HostPort)
					if pt.HostPort > 0 && !others[k] && !occupied[int(pt.HostPort)] && !canBind(pt.Protocol, int(pt.HostPort)) {
						return vcore.Failf("c14:port_left_open", "%s: the ADD failed (%s) but host port %s it opened is still bound", when, firstLine(body), k)
					}
				}
				if savedOK {
					// a failed ADD is followed by kubelet's DEL of that sandbox: it must clean whatever is left
					r.Class("failed_add_left_port_file")
				}
				// kubelet tears the failed sandbox down
				_ = kube.Tracker().Delete(podsRes, "ns1", p.Name)
				code2, body2 := d.Request("DEL", cid, "ns1", p.Name, "eth0", "")
				if code2 != 200 {
					return vcore.Failf("c14:del_failed", "%s: DEL of the sandbox whose ADD failed answered %d %s", when, code2, firstLine(body2))
				}
				if _, ok := portFile(cid); ok {
					return vcore.Failf("c14:port_file_left", "%s: the port file of container %s survived the DEL after its failed ADD", when, cid)
				}
			}
		case "del":
			l := live[op.Pod]
			if l == nil {
				continue
			}
			code, body := del(op.Pod, op.FailIpt)
			fired := len(ipt.Failed) > 0
			ipt.Failed = nil
			r.Logf("%2d del %s cid=%s -> %d %s", oi, p.Name, l.cid, code, firstLine(body))
			if code != 200 {
				if !fired {
					return vcore.Failf("c14:del_failed", "%s: DEL answered %d %s", when, code, firstLine(body))
				}
				r.Class("del_failed_iptables_retried")
				// kubelet retries the DEL
				code, body = d.Request("DEL", l.cid, "ns1", p.Name, "eth0", "")
				if code != 200 {
					return vcore.Failf("c14:del_failed", "%s: the retried DEL answered %d %s", when, code, firstLine(body))
				}
			}
			delete(live, op.Pod)
			if _, ok := portFile(l.cid); ok {
				return vcore.Failf("c14:port_file_left", "%s: the port file of container %s survived its DEL", when, l.cid)
			}
			if len(l.ports) > 0 {
				r.Class("pod_with_hostports_deleted")
			}
		case "restart":
			// the daemon dies (its sockets close with it) and starts again on the same API objects and kernel state
			for i := range c.Pods {
				pmh.CloseHostports(k8s.GetPodFullName(c.Pods[i].Name, "ns1"))
			}
			pmh = portmapping.New("")
			pmh.Interface = ipt
			if d, err = galaxysim.NewDaemonWith(env, conf, env.Dir, kube, pmh); err != nil {
				panic(err)
			}
			if err := d.G.VerifSetupIPtables(); err != nil {
				return vcore.Failf("c14:restart_failed", "%s: setting up the host ports of the pods on the node failed: %v", when, err)
			}
			r.Class("daemon_restarted")
			r.Logf("%2d restart", oi)
		case "terminate":
			// the pod was deleted through the API: it carries a deletion timestamp for its grace period, the sandbox is still there
			if live[op.Pod] == nil {
				continue
			}
			if obj, err := kube.Tracker().Get(podsRes, "ns1", p.Name); err == nil {
				pod := obj.(*corev1.Pod).DeepCopy()
				now := metav1.Now()
				pod.DeletionTimestamp = &now
				_ = kube.Tracker().Update(podsRes, pod, "ns1")
				r.Class("pod_terminating")
			}
		case "gc":
			// the GC's clean callback for containers that are gone (already torn down, or never known): harmless
			for _, cid := range everCids {
				isLive := false
				for _, l := range live {
					if l.cid == cid {
						isLive = true
					}
				}
				if !isLive {
					if err := d.G.VerifCleanIPtables(cid); err != nil {
						return vcore.Failf("c14:gc_clean_failed", "%s: clean callback for dead container %s: %v", when, cid, err)
					}
				}
			}
			_ = d.G.VerifCleanIPtables(galaxysim.ContainerID("never"))
			r.Class("gc_clean")
		}
		if f := invariants(when); f != nil {
			return f
		}
	}
	// tear everything down: nothing of galaxy's may be left
	var idx []int
	for i := range live {
		idx = append(idx, i)
	}
	sort.Ints(idx)
	for _, i := range idx {
		if code, body := del(i, 0); code != 200 {
			return vcore.Failf("c14:del_failed", "final DEL of %s answered %d %s", c.Pods[i].Name, code, firstLine(body))
		}
		delete(live, i)
	}
	return invariants("after the final teardown")
}

func firstLine(s string) string {
	if i := strings.IndexByte(s, '\n'); i >= 0 {
		s = s[:i]
	}
	if len(s) > 200 {
		s = s[:200]
	}
	return s
}
