package netsim

import (
	"fmt"
	"strings"
	"testing"

	"pgregory.net/rapid"
	"tkestack.io/galaxy/pkg/utils/ipset"
	"verifharness/nf"
	"verifharness/vcore"
)

// ---------- C15: network-policy sync converges and leaves foreign rules alone ----------

type c15Case struct {
	A, B        ClusterT
	EventOrder  []int `json:"event_order"` // permutation picks for the A->B events
	Foreign     int   `json:"foreign"`
	StaleSets   int   `json:"stale_sets"`
	StalePlcy   int   `json:"stale_plcy"`    // stale, unreferenced GLX-PLCY chains
	StalePodRef bool  `json:"stale_pod_ref"` // a stale GLX-POD chain (pod long gone) still jumping to a stale GLX-PLCY chain
	NoHooks     bool  `json:"no_hooks,omitempty"` // the hook chains GLX-INGRESS / GLX-EGRESS exist beforehand but nothing jumps to them (a crash between -N and -I)
	Ahead       bool  `json:"ahead,omitempty"` // events mode: the listers already show state B when the first handler runs (handlers lag behind the caches)
	Events      bool  `json:"events"`        // deliver the A->B difference through the event handlers before the full sync
}

func mutateCluster(t *rapid.T, a ClusterT, o GenOpts, keepPolicies bool) ClusterT {
	b := ClusterT{Namespaces: a.Namespaces}
	for _, p := range a.Pods {
		switch rapid.IntRange(0, 11).Draw(t, "podMut") {
		case 0, 1: // deleted
			continue
		case 2, 3: // relabelled
			p.Labels = genLabels(t, "relabel")
		case 6: // re-created under the same name on the other side (a rescheduled statefulset member: local <-> remote), new address
			p.Local = !p.Local
			p.IP = fmt.Sprintf("10.20.5.%d", 10+len(b.Pods))
		case 7: // no address (re-created under the same name and not networked yet)
			p.IP = ""
		case 4: // new address
			p.IP = fmt.Sprintf("10.20.3.%d", 10+len(b.Pods))
		case 5: // new address which is a textual prefix of the old one (10.20.0.12 -> 10.20.0.1), if nobody else has it
			if len(p.IP) < 2 {
				break
			}
			if short := p.IP[:len(p.IP)-1]; !strings.HasSuffix(short, ".") {
				taken := false
				for _, q := range append(append([]PodT{}, a.Pods...), b.Pods...) {
					if q.IP == short {
						taken = true
					}
				}
				if !taken {
					p.IP = short
				}
			}
		}
		b.Pods = append(b.Pods, p)
	}
	na := rapid.IntRange(0, 2).Draw(t, "newPods")
	for i := 0; i < na; i++ {
		b.Pods = append(b.Pods, PodT{Ns: a.Namespaces[rapid.IntRange(0, len(a.Namespaces)-1).Draw(t, "newPodNs")].Name,
			Name: fmt.Sprintf("q%d", i), Labels: genLabels(t, "newPodL"), IP: fmt.Sprintf("10.20.4.%d", 10+i), Local: rapid.Bool().Draw(t, "newLocal")})
	}
	for i, p := range a.Policies {
		switch rapid.IntRange(0, 4).Draw(t, "polMut") {
		case 0:
			if !keepPolicies {
				continue // deleted
			}
		case 1: // rewritten under the same name
			np := genPolicy(t, i, a.Namespaces, o)
			np.Name, np.Ns = p.Name, p.Ns
			p = np
		}
		b.Policies = append(b.Policies, p)
	}
	nn := rapid.IntRange(0, 2).Draw(t, "newPolicies")
	for i := 0; i < nn; i++ {
		b.Policies = append(b.Policies, genPolicy(t, 10+i, a.Namespaces, o))
	}
	return b
}

func genC15() *rapid.Generator[c15Case] {
	return rapid.Custom(func(t *rapid.T) c15Case {
		c := c15Case{A: GenCluster(t, GenOpts{SingleIPBlock: true})}
		// half of the cases remove no policy between A and B (the removal path has a known finding, see known_findings.txt)
		keep := rapid.Bool().Draw(t, "keepPolicies")
		c.B = mutateCluster(t, c.A, GenOpts{SingleIPBlock: true}, keep)
		c.EventOrder = rapid.SliceOfN(rapid.IntRange(0, 1000), 0, 24).Draw(t, "order")
		c.Foreign = rapid.IntRange(0, 2).Draw(t, "foreign")
		c.StaleSets = rapid.IntRange(0, 2).Draw(t, "staleSets")
		c.StalePlcy = rapid.IntRange(0, 2).Draw(t, "stalePlcy")
		c.StalePodRef = rapid.IntRange(0, 5).Draw(t, "stalePodRef") == 0
		c.Events = rapid.Bool().Draw(t, "events")
		c.NoHooks = !c.StalePodRef && rapid.IntRange(0, 3).Draw(t, "noHooks") == 0
		c.Ahead = c.Events && rapid.IntRange(0, 2).Draw(t, "ahead") == 0
		return c
	})
}

func seedGarbage(ipt *nf.IPTables, sets *nf.IPSet, c *c15Case) {
	for i := 0; i < c.Foreign; i++ {
		sets.SeedSet(fmt.Sprintf("KUBE-SET-%d", i), ipset.HashIP, "10.9.9.9")
		// foreign names that resemble galaxy's own naming scheme without carrying its prefix
		for j, n := range []string{"ip-whitelist", "snet-office", "dip-0-BACKENDS", "sip", "PLCY-x", "POD-GLX", "glx-ip-lowercase"} {
			if (i+j)%2 == 0 {
				sets.SeedSet(n, ipset.HashIP, "10.9.9.10")
			}
		}
		ipt.Seed("filter", "PLCY-FOREIGN", "-p tcp -m tcp --dport 23 -j DROP")
		ipt.Seed("filter", "POD-FOREIGN", "-j PLCY-FOREIGN")
		ipt.Seed("filter", fmt.Sprintf("KUBE-FW-%d", i), fmt.Sprintf("-m set --match-set KUBE-SET-%d src -j DROP", i), "-p tcp -m tcp --dport 22 -j ACCEPT")
		ipt.Seed("filter", "FORWARD", fmt.Sprintf("-m comment --comment \"foreign %d\" -j KUBE-FW-%d", i, i))
		ipt.Seed("filter", "INPUT", "-s 203.0.113.0/24 -j DROP")
	}
	for i := 0; i < c.StaleSets; i++ {
		sets.SeedSet(fmt.Sprintf("GLX-sip-0-STALE%011d", i), ipset.HashIP, "10.20.9.1", "10.20.9.2")
		sets.SeedSet(fmt.Sprintf("GLX-snet-1-STALE%010d", i), ipset.HashNet, "10.99.0.0/16", "10.99.1.0/24 nomatch")
	}
	for i := 0; i < c.StalePlcy; i++ {
		sets.SeedSet(fmt.Sprintf("GLX-ip-STALEP%010d", i), ipset.HashIP, "10.20.9.3")
		ipt.Seed("filter", fmt.Sprintf("GLX-PLCY-STALE%011d", i),
			fmt.Sprintf("-m comment --comment old_ns -m set --match-set GLX-ip-STALEP%010d dst -j ACCEPT", i))
	}
	if c.NoHooks {
		ipt.Seed("filter", "GLX-INGRESS")
		ipt.Seed("filter", "GLX-EGRESS")
	}
	if c.StalePodRef {
		sets.SeedSet("GLX-ip-STALEREF00000", ipset.HashIP, "10.20.9.4")
		ipt.Seed("filter", "GLX-PLCY-STALEREF0000000", "-m comment --comment gone_ns -m set --match-set GLX-ip-STALEREF00000 dst -j ACCEPT")
		ipt.Seed("filter", "GLX-POD-GONE000000000000", "-m comment --comment gone_ns -m conntrack --ctstate RELATED,ESTABLISHED -j ACCEPT",
			"-m comment --comment gone_ns -j GLX-PLCY-STALEREF0000000", "-m comment --comment gone_ns -j DROP")
		ipt.Seed("filter", "GLX-INGRESS", "-d 10.20.9.4/32 -m comment --comment gone_ns -j GLX-POD-GONE000000000000")
		ipt.Seed("filter", "FORWARD", "-j GLX-INGRESS")
	}
}

type event struct {
	kind string // podUpsert | podDelete | polAdd | polUpdate | polDelete
	pod  PodT
	old  *PodT
	pol  PolicyT
}

func diffEvents(a, b ClusterT) []event {
	var evs []event
	ap := map[string]PodT{}
	for _, p := range a.Pods {
		ap[p.Ns+"/"+p.Name] = p
	}
	bp := map[string]bool{}
	for _, p := range b.Pods {
		bp[p.Ns+"/"+p.Name] = true
		if o, ok := ap[p.Ns+"/"+p.Name]; !ok || fmt.Sprint(o) != fmt.Sprint(p) {
			e := event{kind: "podUpsert", pod: p}
			if ok {
				oo := o
				e.old = &oo
			}
			evs = append(evs, e)
		}
	}
	for _, p := range a.Pods {
		if !bp[p.Ns+"/"+p.Name] {
			evs = append(evs, event{kind: "podDelete", pod: p})
		}
	}
	apol := map[string]PolicyT{}
	for _, p := range a.Policies {
		apol[p.Ns+"/"+p.Name] = p
	}
	bpol := map[string]bool{}
	for _, p := range b.Policies {
		bpol[p.Ns+"/"+p.Name] = true
		if o, ok := apol[p.Ns+"/"+p.Name]; !ok {
			evs = append(evs, event{kind: "polAdd", pol: p})
		} else if fmt.Sprint(o) != fmt.Sprint(p) {
			evs = append(evs, event{kind: "polUpdate", pol: p})
		}
	}
	for _, p := range a.Policies {
		if !bpol[p.Ns+"/"+p.Name] {
			evs = append(evs, event{kind: "polDelete", pol: p})
		}
	}
	return evs
}

// rejectionOf classifies the first rejected batch.
func rejectionOf(ipt *nf.IPTables, sets *nf.IPSet) (string, string) {
	for _, r := range ipt.Rejects {
		if strings.Contains(r.Err, "still referenced") {
			return "c15:rejected:x_referenced_chain", r.Err + "\n" + r.Text
		}
		if r.Op == "delete-chain" && strings.Contains(r.Err, "Too many links") && strings.HasPrefix(r.Text, "GLX-POD-") {
			return "c15:stale_hook_after_ip_change", r.Err + "\n" + r.Text
		}
		return "c15:rejected:" + r.Op, r.Err + "\n" + r.Text
	}
	for _, r := range sets.Rejects {
		if r.Op == "destroy" && strings.Contains(r.Err, "in use") {
			continue // destroying a set that is still referenced fails harmlessly and is retried by the next sync
		}
		return "c15:rejected:ipset_" + r.Op, r.Err + " " + r.Text
	}
	return "", ""
}

func checkC15(c c15Case, r *vcore.Rec) *vcore.Failure {
	sets := nf.NewIPSet()
	ipt := nf.NewIPTables(sets)
	seedGarbage(ipt, sets, &c)
	s := NewSim(ipt, sets)
	foreign0 := s.ForeignState()
	frame := func(when string) *vcore.Failure {
		if now := s.ForeignState(); now != foreign0 {
			return vcore.Failf("c15:frame", "%s changed chains/rules/sets that galaxy does not own:\n--- before\n%s--- after\n%s", when, foreign0, now)
		}
		return nil
	}
	rej := func(when string) *vcore.Failure {
		if sig, text := rejectionOf(ipt, sets); sig != "" {
			return vcore.Failf(sig, "%s: the kernel model rejected a batch: %s", when, trunc(text, 1500))
		}
		return nil
	}
	// state A
	s.Load(c.A)
	s.PM.Run()
	r.Logf("after sync A:\n%s", s.OwnState())
	if f := rej("full sync of A"); f != nil {
		return f
	}
	if f := frame("full sync of A"); f != nil {
		return f
	}
	// events A -> B
	evs := diffEvents(c.A, c.B)
	removedPolicy, changedPod := false, false
	for _, e := range evs {
		if e.kind == "polDelete" || e.kind == "polUpdate" {
			removedPolicy = true
		}
		if strings.HasPrefix(e.kind, "pod") {
			changedPod = true
		}
	}
	if c.Events {
		// a legal order: a generated permutation of the difference
		order := make([]int, len(evs))
		for i := range order {
			order[i] = i
		}
		for i := range order {
			if i < len(c.EventOrder) {
				j := i + c.EventOrder[i]%(len(order)-i)
				order[i], order[j] = order[j], order[i]
			}
		}
		cur := c.A
		aheadWant := ""
		if c.Ahead {
			// every handler of a policy event runs a full synchronisation: with the caches at B already, the state right after such
			// a handler must be the one derived from B
			setsA := nf.NewIPSet()
			refA := NewSim(nf.NewIPTables(setsA), setsA)
			refA.Load(c.B)
			refA.PM.Run()
			aheadWant = refA.OwnState()
			r.Class("listers_ahead_of_handlers")
		}
		for _, oi := range order {
			e := evs[oi]
			// the informer updates its store before the handler runs
			cur = applyEvent(cur, e)
			s.Load(cur)
			if c.Ahead {
				s.Load(c.B)
			}
			switch e.kind {
			case "podUpsert":
				old := e.pod
				if e.old != nil {
					old = *e.old
				}
				_ = s.PM.UpdatePod(old.toK8s(), e.pod.toK8s())
			case "podDelete":
				_ = s.PM.DeletePod(e.pod.toK8s())
			case "polAdd":
				_ = s.PM.AddPolicy(e.pol.toK8s())
			case "polUpdate":
				_ = s.PM.UpdatePolicy(e.pol.toK8s(), e.pol.toK8s())
			case "polDelete":
				_ = s.PM.DeletePolicy(e.pol.toK8s())
			}
			r.Logf("event %s %s%s", e.kind, e.pod.Name, e.pol.Name)
			if f := rej("event " + e.kind); f != nil {
				return f
			}
			if f := frame("event " + e.kind); f != nil {
				return f
			}
			if c.Ahead && strings.HasPrefix(e.kind, "pol") && c.StaleSets+c.StalePlcy == 0 && !c.StalePodRef && !c.NoHooks && c.Foreign >= 0 {
				if got := s.OwnState(); got != aheadWant {
					return vcore.Failf("c15:convergence:after_policy_event", "the full synchronisation inside the handler of %s %s (caches already at B) "+
						"does not leave the state derived from B:\n--- got\n%s--- from empty\n%s", e.kind, e.pol.Name, got, aheadWant)
				}
			}
		}
	}
	// full sync of B
	preLines := map[string]bool{}
	for _, l := range strings.Split(s.OwnState(), "\n") {
		preLines[l] = true
	}
	s.Load(c.B)
	s.PM.Run()
	if f := rej("full sync of B"); f != nil {
		return f
	}
	if f := frame("full sync of B"); f != nil {
		return f
	}
	got := s.OwnState()
	// reference: full sync of B from empty tables
	sets2 := nf.NewIPSet()
	ref := NewSim(nf.NewIPTables(sets2), sets2)
	ref.Load(c.B)
	ref.PM.Run()
	want := ref.OwnState()
	r.Logf("after sync B:\n%s", got)
	// the jumps from the built-in chains into galaxy's hook chains: whatever a sync from empty tables installs must be there
	hookJumps := func(sim *Sim) map[string]bool {
		out := map[string]bool{}
		tb := sim.IPT.Snapshot("filter")
		for _, bn := range []string{"INPUT", "OUTPUT", "FORWARD"} {
			if ch := tb.Chains[bn]; ch != nil {
				for _, rl := range ch.Rules {
					if tg := rl.Target(); tg == "GLX-INGRESS" || tg == "GLX-EGRESS" {
						out[bn+" -> "+tg] = true
					}
				}
			}
		}
		return out
	}
	gotJumps := hookJumps(s)
	for j := range hookJumps(ref) {
		if !gotJumps[j] {
			return vcore.Failf("c15:convergence:hook_missing", "after the full sync of B the jump %s is missing (a sync from empty tables installs it): "+
				"no traffic reaches galaxy's pod chains", j)
		}
	}
	r.ClassIf(c.NoHooks, "hook_chains_without_jumps")
	if got != want {
		// classification of two recorded findings (known_findings.txt): chains/hooks of pods that no longer exist are never
		// removed by a full sync (K2), and the hook rule of a pod's previous address is never removed (K3)
		wantLines := map[string]bool{}
		wantChains := map[string]bool{}
		for _, l := range strings.Split(want, "\n") {
			wantLines[l] = true
			if strings.HasPrefix(l, ":") {
				wantChains[l[1:]] = true
			}
		}
		stale := map[string]bool{}
		for _, l := range strings.Split(got, "\n") {
			if strings.HasPrefix(l, ":GLX-POD-") && !wantChains[l[1:]] {
				stale[l[1:]] = true
			}
		}
		var kept []string
		droppedHooks := 0
		for _, l := range strings.Split(got, "\n") {
			drop := false
			for ch := range stale {
				if l == ":"+ch || strings.HasPrefix(l, "-A "+ch+" ") || strings.HasSuffix(l, " -j "+ch) {
					drop = true
				}
			}
			if !drop && (strings.HasPrefix(l, "-A GLX-INGRESS -d ") || strings.HasPrefix(l, "-A GLX-EGRESS -s ")) && !wantLines[l] {
				drop = true
				droppedHooks++
			}
			if !drop {
				kept = append(kept, l)
			}
		}
		rest := strings.Join(kept, "\n")
		for _, hook := range []string{":GLX-EGRESS\n", ":GLX-INGRESS\n"} {
			if !strings.Contains(rest, "-A "+strings.TrimSpace(hook[1:])+" ") && !strings.Contains(want, hook) {
				rest = strings.Replace(rest, hook, "", 1)
			}
		}
		ipChanged := false
		for _, e := range evs {
			if e.kind == "podUpsert" && e.old != nil && e.old.IP != e.pod.IP && e.old.IP != "" {
				ipChanged = true
			}
		}
		if rest == want {
			if len(stale) > 0 {
				return vcore.Failf("c15:convergence:stale_pod_chain", "a full sync leaves the chain(s) %v and their hook rules of pods that no longer exist "+
					"(or are no longer selected) in place:\n%s", keys(stale), got)
			}
			if droppedHooks > 0 && ipChanged {
				return vcore.Failf("c15:stale_hook_after_ip_change", "after a pod's address changed the hook rule for its previous address is still installed:\n%s", got)
			}
		}
		// classification (K4): once the K2/K3 lines are set aside, do got and want differ only in members of hash:net sets whose
		// nomatch flag changed between the state before this sync and the wanted state (the member is then missing altogether)?
		onlyFlag := true
		diffLines := 0
		restLines := map[string]bool{}
		for _, l := range strings.Split(rest, "\n") {
			restLines[l] = true
		}
		flip := func(l string) string {
			if strings.HasSuffix(l, " nomatch") {
				return strings.TrimSuffix(l, " nomatch")
			}
			return l + " nomatch"
		}
		isNet := func(l string) bool {
			return strings.HasPrefix(l, "add GLX-snet-") || strings.HasPrefix(l, "add GLX-dnet-")
		}
		for l := range restLines {
			if l != "" && !wantLines[l] {
				diffLines++
				onlyFlag = false
			}
		}
		for l := range wantLines {
			if l != "" && !restLines[l] {
				diffLines++
				if !(isNet(l) && preLines[flip(l)]) {
					onlyFlag = false
				}
			}
		}
		if onlyFlag && diffLines > 0 {
			return vcore.Failf("c15:convergence:ipset_nomatch_flag_change", "after a full sync a hash:net set differs from the one derived from the current "+
				"policies: an element whose nomatch flag changed between syncs is added with the new flag and then deleted by the stale-entry "+
				"cleanup (entries are compared with options but deleted without):\n--- got\n%s--- from empty\n%s", got, want)
		}
		return vcore.Failf("c15:convergence", "full sync of B after (sync A + events) differs from a full sync of B on empty tables:\n--- got\n%s--- from empty\n%s", got, want)
	}
	// idempotence
	s.PM.Run()
	if f := rej("second full sync of B"); f != nil {
		return f
	}
	if again := s.OwnState(); again != got {
		return vcore.Failf("c15:idempotence", "a second full sync changed galaxy's state:\n--- first\n%s--- second\n%s", got, again)
	}
	r.ClassIf(removedPolicy, "policy_removed_or_changed")
	r.ClassIf(changedPod, "pod_changed")
	r.ClassIf(c.StaleSets+c.StalePlcy > 0, "stale_glx_garbage")
	r.ClassIf(c.Events, "events_delivered")
	if removedPolicy && changedPod && c.StaleSets+c.StalePlcy > 0 {
		r.NonTrivial()
	}
	return nil
}

func applyEvent(c ClusterT, e event) ClusterT {
	out := ClusterT{Namespaces: c.Namespaces}
	switch e.kind {
	case "podUpsert", "podDelete":
		out.Policies = c.Policies
		for _, p := range c.Pods {
			if p.Ns == e.pod.Ns && p.Name == e.pod.Name {
				continue
			}
			out.Pods = append(out.Pods, p)
		}
		if e.kind == "podUpsert" {
			out.Pods = append(out.Pods, e.pod)
		}
	default:
		out.Pods = c.Pods
		for _, p := range c.Policies {
			if p.Ns == e.pol.Ns && p.Name == e.pol.Name {
				continue
			}
			out.Policies = append(out.Policies, p)
		}
		if e.kind != "polDelete" {
			out.Policies = append(out.Policies, e.pol)
		}
	}
	return out
}

func keys(m map[string]bool) []string {
	var out []string
	for k := range m {
		out = append(out, k)
	}
	return out
}

func trunc(s string, n int) string {
	if len(s) > n {
		return s[:n] + "..."
	}
	return s
}

func TestC15(t *testing.T) { vcore.Run(t, "C15", genC15(), checkC15) }
