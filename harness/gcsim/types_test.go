package gcsim

import (
	"k8s.io/apimachinery/pkg/runtime"
	k8stesting "k8s.io/client-go/testing"
)

type k8stestingAction = k8stesting.Action
type k8sObject = runtime.Object
type getAction = k8stesting.GetAction
