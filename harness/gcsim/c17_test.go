// Package gcsim is engine E5: the real flannel GC against fake container runtimes (a Docker Engine API stub and a CRI
// RuntimeService stub on unix sockets), per-case directories and a recording port-clean callback.
package gcsim

import (
	"context"
	"encoding/json"
	"flag"
	"fmt"
	"net"
	"net/http"
	"os"
	"path/filepath"
	"sort"
	"strings"
	"sync"
	"testing"

	"google.golang.org/grpc"
	"google.golang.org/grpc/codes"
	"google.golang.org/grpc/status"
	corev1 "k8s.io/api/core/v1"
	metav1 "k8s.io/apimachinery/pkg/apis/meta/v1"
	k8sfake "k8s.io/client-go/kubernetes/fake"
	criapi "k8s.io/cri-api/pkg/apis/runtime/v1"
	"pgregory.net/rapid"
	"tkestack.io/galaxy/pkg/api/docker"
	"tkestack.io/galaxy/pkg/gc"
	"verifharness/vcore"
)

// ---- fake runtimes ----

var (
	stateMu sync.Mutex
	states  = map[string]string{} // container id -> state for the current case
	asked   = map[string]int{}
)

func lookup(id string) string {
	stateMu.Lock()
	defer stateMu.Unlock()
	asked[id]++
	if s, ok := states[id]; ok {
		return s
	}
	return "notfound"
}

func dockerStub(w http.ResponseWriter, r *http.Request) {
	parts := strings.Split(strings.Trim(r.URL.Path, "/"), "/")
	// [v1.xx] containers <id> json
	id := ""
	for i, p := range parts {
		if p == "containers" && i+2 < len(parts) && parts[i+2] == "json" {
			id = parts[i+1]
		}
	}
	if id == "" {
		w.WriteHeader(200)
		fmt.Fprint(w, "{}")
		return
	}
	switch st := lookup(id); st {
	case "notfound":
		w.WriteHeader(404)
		fmt.Fprintf(w, `{"message":"No such container: %s"}`, id)
	case "err500":
		w.WriteHeader(500)
		fmt.Fprint(w, `{"message":"injected daemon error"}`)
	case "errmsg0", "errmsg1", "errmsg2", "errmsg3":
		// runtime errors whose wording resembles a missing container; only the status code says "not found"
		k := int(st[len(st)-1] - '0')
		w.WriteHeader([]int{500, 503, 409, 400}[k])
		fmt.Fprintf(w, `{"message":%q}`, dockerErrMsgs[k]+id)
	case "reset":
		if hj, ok := w.(http.Hijacker); ok {
			if c, _, err := hj.Hijack(); err == nil {
				c.Close()
			}
		}
	default:
		w.Header().Set("Content-Type", "application/json")
		json.NewEncoder(w).Encode(map[string]interface{}{"Id": id, "Name": "/k8s_" + id,
			"State": map[string]interface{}{"Status": st, "Running": st == "running" || st == "paused" || st == "restarting"}})
	}
}

type criStub struct {
	criapi.UnimplementedRuntimeServiceServer
}

func (*criStub) PodSandboxStatus(ctx context.Context, req *criapi.PodSandboxStatusRequest) (*criapi.PodSandboxStatusResponse, error) {
	id := req.PodSandboxId
	st := lookup(id)
	switch {
	case st == "notfound":
		return nil, status.Error(codes.NotFound, "sandbox not found")
	case st == "err500" || st == "reset":
		return nil, status.Error(codes.Unavailable, "injected runtime outage")
	case strings.HasPrefix(st, "errmsg"):
		k := int(st[len(st)-1] - '0')
		return nil, status.Error([]codes.Code{codes.Unknown, codes.Internal, codes.DeadlineExceeded, codes.Unavailable}[k], criErrMsgs[k])
	case strings.HasPrefix(st, "ready"):
		return &criapi.PodSandboxStatusResponse{Status: &criapi.PodSandboxStatus{Id: id, State: criapi.PodSandboxState_SANDBOX_READY,
			Annotations: map[string]string{gc.SandboxName: "pod-" + id, gc.SandboxNamespace: "ns1"}}}, nil
	default: // notready*
		return &criapi.PodSandboxStatusResponse{Status: &criapi.PodSandboxStatus{Id: id, State: criapi.PodSandboxState_SANDBOX_NOTREADY,
			Annotations: map[string]string{gc.SandboxName: "pod-" + id, gc.SandboxNamespace: "ns1"}}}, nil
	}
}

var (
	dockerCli, containerdCli *docker.DockerInterface
	sockDir                  string
)

func TestMain(m *testing.M) {
	vcore.QuietKlog()
	var err error
	sockDir, err = os.MkdirTemp("/dev/shm", "gcsim-")
	if err != nil {
		sockDir, _ = os.MkdirTemp("", "gcsim-")
	}
	// Docker Engine API stub
	dl, err := net.Listen("unix", filepath.Join(sockDir, "docker.sock"))
	if err != nil {
		fmt.Println(err)
		os.Exit(2)
	}
	go http.Serve(dl, http.HandlerFunc(dockerStub))
	// CRI stub
	cl, err := net.Listen("unix", filepath.Join(sockDir, "cri.sock"))
	if err != nil {
		fmt.Println(err)
		os.Exit(2)
	}
	gs := grpc.NewServer()
	criapi.RegisterRuntimeServiceServer(gs, &criStub{})
	go gs.Serve(cl)
	os.Setenv("DOCKER_HOST", "unix://"+filepath.Join(sockDir, "docker.sock"))
	os.Unsetenv("CONTAINERD_HOST")
	if dockerCli, err = docker.NewDockerInterface(); err != nil {
		fmt.Println("docker client:", err)
		os.Exit(2)
	}
	os.Setenv("CONTAINERD_HOST", "unix://"+filepath.Join(sockDir, "cri.sock"))
	if containerdCli, err = docker.NewDockerInterface(); err != nil {
		fmt.Println("containerd client:", err)
		os.Exit(2)
	}
	os.Unsetenv("CONTAINERD_HOST")
	code := m.Run()
	os.RemoveAll(sockDir)
	os.Exit(code)
}

// ---------- C17: GC removes only dead containers' state, and eventually all of it ----------

type ctrDef struct {
	ID    string `json:"id"`
	State string `json:"state"`
	// files
	IPFiles []ipFile `json:"ip_files"`
	StateIn []int    `json:"state_in"` // gc dirs (by index) holding a state file named by the id
}

type ipFile struct {
	Dir     int    `json:"dir"`
	IP      string `json:"ip"`
	Content int    `json:"content"` // 0 "id", 1 "id\nif", 2 "id\r\nif", 3 " id \n"
}

type c17Case struct {
	Containerd bool     `json:"containerd"`
	Ctrs       []ctrDef `json:"ctrs"`
	Extra      int      `json:"extra"`    // non-container files: non-IP names and empty files in the IP dirs, sub-directories everywhere
	PortErr    bool     `json:"port_err"` // the port-clean callback fails
	MissingDir bool     `json:"missing_dir"`
	// Later: what happens between the first and the second round of the same GC instance
	Later []ctrChange `json:"later,omitempty"`
}

// ctrChange: a container's runtime answer changes (it exits, an exited docker container is started again, the runtime goes down or
// comes back); Refile: its state files are there again (the restarted container's network was set up again under the same id)
type ctrChange struct {
	Ctr    int    `json:"ctr"`
	State  string `json:"state"`
	Refile bool   `json:"refile,omitempty"`
}

var dockerStates = []string{"running", "running", "paused", "restarting", "created", "exited", "dead", "notfound", "err500", "reset",
	"errmsg0", "errmsg1", "errmsg2", "errmsg3"}
var criStates = []string{"ready", "ready", "notready-nopod", "notready-running", "notready-waiting", "notready-terminated", "notready-kubeerr",
	"notfound", "err500", "errmsg0", "errmsg1", "errmsg2", "errmsg3"}

var dockerErrMsgs = []string{"No such container: ", "layer not found while inspecting ", "container is dead or marked for removal: ", "page not found: "}
var criErrMsgs = []string{`failed to get verbose sandbox container info: runtime handler "runc" not found in runtime cache`,
	"an error occurred when try to find sandbox: not found", "context deadline exceeded while waiting for sandbox status (NotFound?)",
	"sandbox not found (transport is closing)"}

func genC17() *rapid.Generator[c17Case] {
	return rapid.Custom(func(t *rapid.T) c17Case {
		c := c17Case{Containerd: rapid.IntRange(0, 2).Draw(t, "containerd") == 0, Extra: rapid.IntRange(0, 3).Draw(t, "extra"),
			PortErr: rapid.IntRange(0, 4).Draw(t, "portErr") == 0, MissingDir: rapid.IntRange(0, 4).Draw(t, "missingDir") == 0}
		n := rapid.IntRange(3, 12).Draw(t, "nCtrs")
		sts := dockerStates
		if c.Containerd {
			sts = criStates
		}
		ipn := 2
		for i := 0; i < n; i++ {
			d := ctrDef{ID: fmt.Sprintf("%s%04d", rapid.StringMatching(`[a-f0-9]{8}`).Draw(t, "id"), i), State: rapid.SampledFrom(sts).Draw(t, "state")}
			k := rapid.IntRange(0, 2).Draw(t, "nIP")
			for j := 0; j < k; j++ {
				d.IPFiles = append(d.IPFiles, ipFile{Dir: rapid.IntRange(0, 1).Draw(t, "ipDir"), IP: fmt.Sprintf("172.16.24.%d", ipn),
					Content: rapid.IntRange(0, 3).Draw(t, "content")})
				ipn++
			}
			for g := 0; g < 3; g++ {
				if rapid.Bool().Draw(t, "stateFile") {
					d.StateIn = append(d.StateIn, g)
				}
			}
			c.Ctrs = append(c.Ctrs, d)
		}
		for i, k := 0, rapid.IntRange(0, 3).Draw(t, "nLater"); i < k; i++ {
			ch := ctrChange{Ctr: rapid.IntRange(0, n-1).Draw(t, "laterCtr")}
			cur := c.Ctrs[ch.Ctr].State
			for _, l := range c.Later {
				if l.Ctr == ch.Ctr {
					cur = l.State
				}
			}
			// what can follow: a removed container (or a dead sandbox) never comes back under its id, an exited docker container can be
			// started again, a live one can end in any way, and the runtime can fail or recover at any time
			var next []string
			unknown := []string{"err500", "errmsg0", "errmsg1", "errmsg2", "errmsg3"}
			switch cl := classOf(cur, c.Containerd); {
			case cl == "dead" && !c.Containerd && cur == "exited":
				next = append([]string{"running", "restarting", "exited", "dead", "notfound"}, unknown...)
			case cl == "dead":
				next = append([]string{cur}, unknown...)
			case cl == "unknown":
				// the state behind the failing answers: anything the first answer of this container did not exclude
				if first := classOf(c.Ctrs[ch.Ctr].State, c.Containerd); first == "dead" && !(c.Ctrs[ch.Ctr].State == "exited" && !c.Containerd) {
					next = append([]string{c.Ctrs[ch.Ctr].State}, unknown...)
				} else {
					next = sts
				}
			default:
				next = sts
			}
			ch.State = rapid.SampledFrom(next).Draw(t, "laterState")
			ch.Refile = rapid.Bool().Draw(t, "laterRefile")
			c.Later = append(c.Later, ch)
		}
		return c
	})
}

func classOf(state string, containerd bool) string {
	// dead: a successful runtime answer says the container does not exist or has exited; alive: it exists and has not exited;
	// unknown: the runtime could not be asked; open: the statement leaves it open
	if !containerd {
		switch state {
		case "exited", "dead", "notfound":
			return "dead"
		case "err500", "reset", "errmsg0", "errmsg1", "errmsg2", "errmsg3":
			return "unknown"
		}
		return "alive"
	}
	switch state {
	case "notfound", "notready-nopod", "notready-terminated":
		return "dead"
	case "err500", "notready-kubeerr", "errmsg0", "errmsg1", "errmsg2", "errmsg3":
		return "unknown"
	case "ready":
		return "alive"
	case "notready-running", "notready-waiting":
		return "alive" // the sandbox is down but the pod's containers are (re)starting: keep
	}
	return "open"
}

func checkC17(c c17Case, r *vcore.Rec) *vcore.Failure {
	root, err := os.MkdirTemp("/dev/shm", "gc17-")
	if err != nil {
		return vcore.Failf("harness:tmp", "%v", err)
	}
	defer os.RemoveAll(root)
	ipDirs := []string{filepath.Join(root, "networks"), filepath.Join(root, "networks", "galaxy-flannel")}
	gcDirs := []string{filepath.Join(root, "flannel"), filepath.Join(root, "galaxy"), filepath.Join(root, "galaxy", "port")}
	for _, d := range append(append([]string{}, ipDirs...), gcDirs...) {
		os.MkdirAll(d, 0755)
	}
	flagGC := append([]string{}, gcDirs...)
	if c.MissingDir {
		flagGC = append(flagGC, filepath.Join(root, "does-not-exist"))
	}
	flag.Set("flannel_allocated_ip_dir", strings.Join(ipDirs, ","))
	flag.Set("gc_dirs", strings.Join(flagGC, ","))
	stateMu.Lock()
	states = map[string]string{}
	asked = map[string]int{}
	for _, d := range c.Ctrs {
		states[d.ID] = d.State
	}
	stateMu.Unlock()
	// files
	type fileRec struct {
		path, ctr string
	}
	var files []fileRec
	writeFiles := func(d ctrDef, record bool) {
		for _, f := range d.IPFiles {
			content := []string{d.ID, d.ID + "\neth0", d.ID + "\r\neth0", " " + d.ID + " \n"}[f.Content]
			p := filepath.Join(ipDirs[f.Dir], f.IP)
			os.WriteFile(p, []byte(content), 0644)
			if record {
				files = append(files, fileRec{p, d.ID})
			}
		}
		for _, g := range d.StateIn {
			p := filepath.Join(gcDirs[g], d.ID)
			os.WriteFile(p, []byte(`{"x":1}`), 0644)
			if record {
				files = append(files, fileRec{p, d.ID})
			}
		}
	}
	for _, d := range c.Ctrs {
		writeFiles(d, true)
	}
	var untouchable []string
	for i := 0; i < c.Extra; i++ {
		for _, d := range ipDirs {
			p := filepath.Join(d, fmt.Sprintf("last_reserved_ip.%d", i))
			os.WriteFile(p, []byte("172.16.24.9"), 0644)
			untouchable = append(untouchable, p)
			p = filepath.Join(d, fmt.Sprintf("172.16.25.%d", i+1)) // an IP-named but empty file
			os.WriteFile(p, nil, 0644)
			untouchable = append(untouchable, p)
		}
		for _, d := range append(append([]string{}, ipDirs...), gcDirs...) {
			p := filepath.Join(d, fmt.Sprintf("subdir%d", i))
			os.MkdirAll(p, 0755)
			os.WriteFile(filepath.Join(p, "keep"), []byte("x"), 0644)
			untouchable = append(untouchable, filepath.Join(p, "keep"))
		}
	}
	// kube client for the containerd sandbox-pod lookup: the answer follows the container's current state
	kube := k8sfake.NewSimpleClientset()
	kube.PrependReactor("get", "pods", func(a k8stestingAction) (bool, k8sObject, error) {
		ga, ok := a.(getAction)
		if !ok {
			return false, nil, nil
		}
		for _, d := range c.Ctrs {
			if ga.GetName() != "pod-"+d.ID {
				continue
			}
			stateMu.Lock()
			st := states[d.ID]
			stateMu.Unlock()
			pod := &corev1.Pod{ObjectMeta: metav1.ObjectMeta{Name: "pod-" + d.ID, Namespace: "ns1"}}
			switch st {
			case "notready-kubeerr":
				return true, nil, fmt.Errorf("injected apiserver error")
			case "notready-running":
				pod.Status.ContainerStatuses = []corev1.ContainerStatus{{State: corev1.ContainerState{Running: &corev1.ContainerStateRunning{}}}}
			case "notready-waiting":
				pod.Status.ContainerStatuses = []corev1.ContainerStatus{{State: corev1.ContainerState{Terminated: &corev1.ContainerStateTerminated{}}},
					{State: corev1.ContainerState{Waiting: &corev1.ContainerStateWaiting{}}}}
			case "notready-terminated":
				pod.Status.ContainerStatuses = []corev1.ContainerStatus{{State: corev1.ContainerState{Terminated: &corev1.ContainerStateTerminated{}}}}
			default:
				return false, nil, nil // no such pod (the tracker is empty)
			}
			return true, pod, nil
		}
		return false, nil, nil
	})
	var cleaned []string
	var cmu sync.Mutex
	// like galaxy's clean callback the stub finds a container's port mappings only through its port file: called without the file it
	// has nothing to clean and says so with nil
	cleanedWithFile := map[string]bool{}
	cleanPort := func(id string) error {
		cmu.Lock()
		cleaned = append(cleaned, id)
		cmu.Unlock()
		if c.PortErr {
			return fmt.Errorf("injected port clean error")
		}
		if _, err := os.Stat(filepath.Join(root, "galaxy", "port", id)); err == nil {
			cmu.Lock()
			cleanedWithFile[id] = true
			cmu.Unlock()
		}
		return nil
	}
	cli := dockerCli
	if c.Containerd {
		os.Setenv("CONTAINERD_HOST", "unix://"+filepath.Join(sockDir, "cri.sock"))
		cli = containerdCli
	} else {
		os.Unsetenv("CONTAINERD_HOST")
	}
	defer os.Unsetenv("CONTAINERD_HOST")
	g := gc.NewFlannelGC(kube, cli, make(chan struct{}), cleanPort)
	classes := map[string]bool{}
	cur := func(id string) string {
		stateMu.Lock()
		defer stateMu.Unlock()
		return states[id]
	}
	var cleanedEver []string
	changed, restarted := false, false
	for round := 1; round <= 3; round++ {
		if round == 2 {
			for _, ch := range c.Later {
				d := c.Ctrs[ch.Ctr]
				was := classOf(cur(d.ID), c.Containerd)
				stateMu.Lock()
				states[d.ID] = ch.State
				stateMu.Unlock()
				if ch.Refile {
					writeFiles(d, false)
				}
				changed = true
				if was == "dead" && ch.Refile && classOf(ch.State, c.Containerd) != "dead" {
					restarted = true
				}
			}
		}
		existed := map[string]bool{}
		for _, f := range files {
			if _, err := os.Stat(f.path); err == nil {
				existed[f.path] = true
			}
		}
		cmu.Lock()
		cleaned = nil
		cmu.Unlock()
		if err := gc.VerifRunOnce(g); err != nil {
			return vcore.Failf("c17:run", "GC round failed: %v", err)
		}
		for _, f := range files {
			st := cur(f.ctr)
			cl := classOf(st, c.Containerd)
			classes[cl] = true
			_, serr := os.Stat(f.path)
			gone := os.IsNotExist(serr)
			if gone && existed[f.path] && (cl == "alive" || cl == "unknown") {
				return vcore.Failf("c17:removed_live", "round %d removed %s of container %s whose runtime state is %q (%s)", round,
					strings.TrimPrefix(f.path, root), f.ctr, st, cl)
			}
			if !gone && cl == "dead" {
				return vcore.Failf("c17:left_behind", "round %d left %s of dead container %s (state %q) behind", round, strings.TrimPrefix(f.path, root),
					f.ctr, st)
			}
		}
		for _, id := range cleaned {
			if cl := classOf(cur(id), c.Containerd); cl == "alive" || cl == "unknown" {
				return vcore.Failf("c17:port_cleaned_live", "round %d cleaned the port mappings of container %s whose runtime state is %q", round, id, cur(id))
			}
		}
		cleanedEver = append(cleanedEver, cleaned...)
		for _, p := range untouchable {
			if _, err := os.Stat(p); err != nil {
				return vcore.Failf("c17:non_container_file", "round %d removed %s which is not a container state file", round, strings.TrimPrefix(p, root))
			}
		}
	}
	cleaned = cleanedEver
	// every dead container with a state file in a gc dir had its ports cleaned
	for _, d := range c.Ctrs {
		if classOf(d.State, c.Containerd) == "dead" && len(d.StateIn) > 0 {
			found := false
			for _, id := range cleaned {
				if id == d.ID {
					found = true
				}
			}
			if !found {
				return vcore.Failf("c17:ports_not_cleaned", "dead container %s had state files but its port mappings were never cleaned", d.ID)
			}
			hadPortFile := false
			for _, g := range d.StateIn {
				if g == 2 {
					hadPortFile = true
				}
			}
			if hadPortFile && !c.PortErr && !cleanedWithFile[d.ID] {
				return vcore.Failf("c17:ports_not_cleaned", "dead container %s: its port file (the only record of its port mappings) was removed before the "+
					"clean callback could read it - the mappings stay for ever", d.ID)
			}
		}
	}
	var cl []string
	for k := range classes {
		cl = append(cl, k)
	}
	sort.Strings(cl)
	r.ClassIf(c.Containerd, "containerd_mode")
	r.ClassIf(!c.Containerd, "docker_mode")
	r.ClassIf(changed, "state_changed_between_rounds")
	r.ClassIf(restarted, "dead_container_back_with_files")
	r.ClassIf(classes["alive"] && classes["dead"] && classes["unknown"], "alive_dead_and_erroring")
	if classes["alive"] && classes["dead"] && classes["unknown"] {
		r.NonTrivial()
	}
	return nil
}

func TestC17(t *testing.T) { vcore.Run(t, "C17", genC17(), checkC17) }
