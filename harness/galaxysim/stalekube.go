package galaxysim

import (
	"context"
	"sync"

	corev1 "k8s.io/api/core/v1"
	metav1 "k8s.io/apimachinery/pkg/apis/meta/v1"
	"k8s.io/client-go/kubernetes"
	corev1client "k8s.io/client-go/kubernetes/typed/core/v1"
)

// StaleKube is an API-server double that knows what the fake clientset forgets: the options of a GET. A pod GET with
// resourceVersion "0" may be answered from the server's watch cache, i.e. with an older state of the object; StaleKube answers such
// reads with the copy registered through SetStale (if any), every other read with the truth.
type StaleKube struct {
	kubernetes.Interface
	mu    sync.Mutex
	stale map[string]*corev1.Pod
}

func NewStaleKube(truth kubernetes.Interface) *StaleKube {
	return &StaleKube{Interface: truth, stale: map[string]*corev1.Pod{}}
}

// SetStale registers what the watch cache still holds for ns/name.
func (s *StaleKube) SetStale(pod *corev1.Pod) {
	s.mu.Lock()
	defer s.mu.Unlock()
	s.stale[pod.Namespace+"/"+pod.Name] = pod.DeepCopy()
}

func (s *StaleKube) CoreV1() corev1client.CoreV1Interface { return staleCore{s.Interface.CoreV1(), s} }

type staleCore struct {
	corev1client.CoreV1Interface
	s *StaleKube
}

func (c staleCore) Pods(ns string) corev1client.PodInterface {
	return stalePods{c.CoreV1Interface.Pods(ns), c.s, ns}
}

type stalePods struct {
	corev1client.PodInterface
	s  *StaleKube
	ns string
}

func (p stalePods) Get(ctx context.Context, name string, o metav1.GetOptions) (*corev1.Pod, error) {
	if o.ResourceVersion == "0" {
		p.s.mu.Lock()
		old := p.s.stale[p.ns+"/"+name]
		p.s.mu.Unlock()
		if old != nil {
			return old.DeepCopy(), nil
		}
	}
	return p.PodInterface.Get(ctx, name, o)
}
