package galaxysim

import (
	"encoding/json"
	"fmt"
	k8sfake "k8s.io/client-go/kubernetes/fake"
	"net"
	"strings"
	"testing"

	"github.com/containernetworking/cni/pkg/skel"
	t020 "github.com/containernetworking/cni/pkg/types/020"
	corev1 "k8s.io/api/core/v1"
	"pgregory.net/rapid"
	cniipam "tkestack.io/galaxy/cni/ipam"
	"tkestack.io/galaxy/pkg/api/galaxy/constant"
	"tkestack.io/galaxy/pkg/galaxy"
	"tkestack.io/galaxy/pkg/utils/nets"
	"verifharness/ipamsim"
	"verifharness/vcore"
)

// ---------- C13: the IPs a plugin configures are exactly the IPs IPAM allocated ----------

type c13Case struct {
	PrefixLen int      `json:"prefix_len"`
	Base      uint32   `json:"base"`
	GwOff     uint32   `json:"gw_off"`
	Vlan      uint16   `json:"vlan"`
	IPOffs    []uint32 `json:"ip_offs"` // offsets of the configured IPs inside the subnet (sorted, gaps >= 2)
	K         int      `json:"k"`       // number of requested ranges (0 = plain single IP)
	// a second pool behind the same node subnet with its own mask/gateway/VLAN; odd ranges are taken from it
	Second     bool   `json:"second"`
	PrefixLen2 int    `json:"prefix_len2"`
	GwOff2     uint32 `json:"gw_off2"`
	Vlan2      uint16 `json:"vlan2"`
	Kind       string `json:"kind"` // sts | dp
	TwoNets    bool   `json:"two_nets"`
	// the pod was created from the manifest of a pod bound earlier: its args annotation already carries common.ipinfos (an address
	// IPAM never gave to THIS pod)
	Carried bool `json:"carried,omitempty"`
	// Reconf (statefulset, one pool): after the first bind the administrator changes the pool's gateway and VLAN (same ranges) and
	// galaxy-ipam reloads; the pod is re-created (policy never: it keeps its IP) and bound again - the plugin must get the NEW settings
	Reconf bool `json:"reconf,omitempty"`
}

func genC13() *rapid.Generator[c13Case] {
	return rapid.Custom(func(t *rapid.T) c13Case {
		c := c13Case{PrefixLen: rapid.IntRange(8, 30).Draw(t, "prefixLen")}
		if rapid.Bool().Draw(t, "common") {
			c.PrefixLen = rapid.SampledFrom([]int{16, 22, 24, 26, 28, 30}).Draw(t, "prefixCommon")
		}
		size := uint32(1) << (32 - uint(c.PrefixLen))
		c.Base = (uint32(rapid.IntRange(11, 99).Draw(t, "a"))<<24 | rapid.Uint32().Draw(t, "low")&0x00ffffff) &^ (size - 1)
		c.GwOff = uint32(rapid.Uint64Range(0, uint64(size-1)).Draw(t, "gw"))
		c.Vlan = uint16(rapid.IntRange(0, 4094).Draw(t, "vlan"))
		if rapid.IntRange(0, 3).Draw(t, "vlan0") == 0 {
			c.Vlan = 0
		}
		c.K = rapid.IntRange(0, 4).Draw(t, "k")
		n := c.K + 1
		if uint32(n)*2 > size {
			n = int(size / 2)
			if n == 0 {
				n = 1
			}
			if c.K > n {
				c.K = n
			}
		}
		off := uint32(rapid.Uint64Range(0, uint64(size-uint32(n)*2)).Draw(t, "firstOff"))
		for i := 0; i < n; i++ {
			c.IPOffs = append(c.IPOffs, off)
			off += 2
		}
		c.Second = c.K >= 2 && rapid.IntRange(0, 2).Draw(t, "second") > 0
		c.PrefixLen2 = rapid.SampledFrom([]int{16, 20, 24, 27, 29}).Draw(t, "prefix2")
		c.GwOff2 = uint32(rapid.IntRange(0, 7).Draw(t, "gw2"))
		c.Vlan2 = uint16(rapid.IntRange(0, 4094).Draw(t, "vlan2"))
		c.Kind = rapid.SampledFrom([]string{"sts", "dp"}).Draw(t, "kind")
		c.TwoNets = rapid.Bool().Draw(t, "twoNets")
		c.Carried = rapid.IntRange(0, 3).Draw(t, "carried") == 0
		c.Reconf = !c.Second && c.Kind == "sts" && rapid.IntRange(0, 3).Draw(t, "reconf") == 0
		return c
	})
}

func u32ip(x uint32) string { return nets.IntToIP(x).String() }

func checkC13(c c13Case, r *vcore.Rec) *vcore.Failure {
	env.Reset()
	pool := ipamsim.PoolT{NodeSubnets: []string{"10.49.27.0/24"}, Subnet: fmt.Sprintf("%s/%d", u32ip(c.Base), c.PrefixLen),
		Gateway: u32ip(c.Base + c.GwOff), Vlan: c.Vlan}
	for _, o := range c.IPOffs {
		pool.Ranges = append(pool.Ranges, [2]uint32{c.Base + o, c.Base + o})
	}
	pools := []ipamsim.PoolT{pool}
	// which pool the i-th requested range comes from, and its address
	rangeIP := func(i int) (string, int) { return u32ip(c.Base + c.IPOffs[i]), 0 }
	if c.Second {
		base2 := uint32(0xC8000000) // 200.0.0.0, disjoint from the first pool's 11-99.x.x.x
		p2 := ipamsim.PoolT{NodeSubnets: []string{"10.49.27.0/24"}, Subnet: fmt.Sprintf("%s/%d", u32ip(base2), c.PrefixLen2),
			Gateway: u32ip(base2 + c.GwOff2), Vlan: c.Vlan2}
		for i := 0; i < 4; i++ {
			p2.Ranges = append(p2.Ranges, [2]uint32{base2 + uint32(i)*2, base2 + uint32(i)*2})
		}
		if base2 < c.Base {
			pools = []ipamsim.PoolT{p2, pool}
		} else {
			pools = append(pools, p2)
		}
		rangeIP = func(i int) (string, int) {
			if i%2 == 1 {
				return u32ip(base2 + uint32(i/2)*2), 1
			}
			return u32ip(c.Base + c.IPOffs[i]), 0
		}
	}
	poolOf := func(which int) ipamsim.PoolT {
		if which == 0 {
			return pool
		}
		for _, p := range pools {
			if p.Subnet != pool.Subnet {
				return p
			}
		}
		return pool
	}
	topo := ipamsim.Topo{Pools: pools, Nodes: []ipamsim.NodeT{{Name: "n0", IP: "10.49.27.3"}}}
	wl := ipamsim.WL{Kind: c.Kind, Name: "a0", Replicas: 2}
	if c.Reconf {
		wl.Policy = "never"
	}
	for i := 0; i < c.K; i++ {
		ip, _ := rangeIP(i)
		wl.Ranges = append(wl.Ranges, []string{ip})
	}
	hc := &ipamsim.Case{Topo: topo, WLs: []ipamsim.WL{wl}}
	x, err := ipamsim.NewExec(hc, &vcore.Rec{})
	if err != nil {
		return vcore.Failf("harness:init", "world construction failed: %v (config %s)", err, topo.ConfigText())
	}
	w := x.W
	pod := w.CreatePod(0, &hc.WLs[0], hc.WLs[0].PodName(0))
	if c.Carried {
		tp := w.TruthPod(pod.Name).DeepCopy()
		var m map[string]interface{}
		if a := tp.Annotations[constant.ExtendedCNIArgsAnnotation]; a != "" {
			_ = json.Unmarshal([]byte(a), &m)
		}
		if m == nil {
			m = map[string]interface{}{}
		}
		m["common"] = map[string]interface{}{"ipinfos": []map[string]interface{}{{"ip": "10.250.9.9/24", "vlan": 9, "gateway": "10.250.9.1"}}}
		data, _ := json.Marshal(m)
		if tp.Annotations == nil {
			tp.Annotations = map[string]string{}
		}
		tp.Annotations[constant.ExtendedCNIArgsAnnotation] = string(data)
		w.InjectPod(tp)
		r.Class("pod_carries_ipinfos_before_bind")
	}
	nodes, _, ferr, _ := w.Filter(pod.Name, []string{"n0"})
	if ferr != nil || len(nodes) != 1 {
		return vcore.Failf("c13:filter", "filter failed on a satisfiable request: nodes=%v err=%v config=%s", nodes, ferr, topo.ConfigText())
	}
	if berr, _ := w.Bind(pod.Name, pod.UID, "n0"); berr != nil {
		return vcore.Failf("c13:bind", "bind failed: %v", berr)
	}
	if c.Reconf {
		size := uint32(1) << (32 - uint(c.PrefixLen))
		pool.Gateway = u32ip(c.Base + (c.GwOff+1)%size)
		pool.Vlan = (c.Vlan + 7) % 4095
		topo.Pools = []ipamsim.PoolT{pool}
		w.SetConfig(topo.ConfigText())
		if _, err, _ := w.Reload(); err != nil {
			return vcore.Failf("harness:reload", "reload with changed pool settings failed: %v (%s)", err, topo.ConfigText())
		}
		// the pod is re-created under the same name; with policy never its reservation is reused
		w.DeletePod(pod.Name)
		for i := 0; i < 10; i++ {
			if ok, _ := w.DeliverEvent(false); !ok {
				break
			}
		}
		for i := 0; i < 5; i++ {
			if ran, _, _ := w.RunUnbind(0); !ran {
				break
			}
		}
		pod = w.CreatePod(0, &hc.WLs[0], hc.WLs[0].PodName(0))
		if c.Carried {
			c.Carried = false // (the second incarnation is a fresh object)
		}
		nodes, _, ferr, _ := w.Filter(pod.Name, []string{"n0"})
		if ferr != nil || len(nodes) != 1 {
			return vcore.Failf("c13:filter", "filter of the re-created pod failed: nodes=%v err=%v", nodes, ferr)
		}
		if berr, _ := w.Bind(pod.Name, pod.UID, "n0"); berr != nil {
			return vcore.Failf("c13:bind", "bind of the re-created pod failed: %v", berr)
		}
		r.Class("pool_settings_changed_by_reload")
	}
	// what IPAM allocated and persisted, in request order
	store := w.StoreList()
	want := c.K
	if want == 0 {
		want = 1
	}
	var expectIPs []string
	if c.K == 0 {
		for ip, f := range store {
			if f.Key == pod.Key {
				expectIPs = append(expectIPs, ip)
			}
		}
	} else {
		for i := 0; i < c.K; i++ {
			ip, _ := rangeIP(i)
			if store[ip].Key != pod.Key {
				return vcore.Failf("c13:store", "range %d (%s) has no FloatingIP object keyed to the pod", i, ip)
			}
			expectIPs = append(expectIPs, ip)
		}
	}
	if len(expectIPs) != want {
		return vcore.Failf("c13:store", "store holds %d IPs for the pod, expected %d", len(expectIPs), want)
	}
	// the applied binding annotation is what the galaxy daemon sees on the pod
	truth, _ := w.Kube.Tracker().Get(corev1.SchemeGroupVersion.WithResource("pods"), ipamsim.NS, pod.Name)
	ann := truth.(*corev1.Pod).Annotations[constant.ExtendedCNIArgsAnnotation]
	r.Logf("annotation %s", ann)
	conf := galaxy.JsonConf{NetworkConf: []map[string]interface{}{{"name": "neta", "type": "fake-a", "cniVersion": "0.2.0"},
		{"name": "netb", "type": "fake-b", "cniVersion": "0.2.0"}}, DefaultNetworks: []string{"neta"}}
	if c.TwoNets {
		conf.DefaultNetworks = []string{"neta", "netb"}
	}
	gpod := Pod(ipamsim.NS, pod.Name, map[string]string{constant.ExtendedCNIArgsAnnotation: ann}, true)
	// a second pod on the node never asked galaxy-ipam for anything: no IP may reach its plugin
	plain := Pod(ipamsim.NS, "plain-0", nil, false)
	// the API server the daemon talks to: the truth, plus a watch cache that still holds the pod as it was before galaxy-ipam's
	// binding (a read that asks for "any version" may be served from it; a consistent read never is)
	truthKube := k8sfake.NewSimpleClientset(gpod, plain)
	sk := NewStaleKube(truthKube)
	sk.SetStale(Pod(ipamsim.NS, pod.Name, nil, true))
	d, err := NewDaemonClient(env, conf, "", sk)
	if err != nil {
		return vcore.Failf("harness:init", "daemon construction failed: %v", err)
	}
	cid := ContainerID("c13")
	defer RemoveState(cid)
	code, body := d.Request("ADD", cid, ipamsim.NS, pod.Name, "eth0", "")
	if code != 200 {
		return vcore.Failf("c13:add", "ADD failed: %d %s", code, body)
	}
	log := env.Log()
	wantCalls := 1
	if c.TwoNets {
		wantCalls = 2
	}
	if len(log) != wantCalls {
		return vcore.Failf("c13:calls", "%d plugin invocations, expected %d", len(log), wantCalls)
	}
	for _, rec := range log {
		r.Logf("plugin %s args=%s", rec.Network, rec.Args)
		vlans, results, err := cniipam.Allocate("", &skel.CmdArgs{Args: rec.Args})
		if err != nil {
			return vcore.Failf("c13:decode", "the plugins' own decoder rejects the arguments of network %s: %v (args %s)", rec.Network, err, rec.Args)
		}
		if len(results) != len(expectIPs) || len(vlans) != len(expectIPs) {
			return vcore.Failf("c13:count", "plugin %s decodes %d IPs, IPAM allocated %d (%v)", rec.Network, len(results), len(expectIPs), expectIPs)
		}
		for i, res := range results {
			r020, ok := res.(*t020.Result)
			if !ok || r020.IP4 == nil {
				return vcore.Failf("c13:decode", "result %d is not an IPv4 result", i)
			}
			ones, _ := r020.IP4.IP.Mask.Size()
			gotIP := r020.IP4.IP.IP.String()
			which := 0
			if c.K > 0 {
				_, which = rangeIP(i)
			}
			ep := poolOf(which)
			if gotIP != expectIPs[i] || ones != ep.MaskLen() || !r020.IP4.Gateway.Equal(net.ParseIP(ep.Gateway)) || vlans[i] != ep.Vlan {
				return vcore.Failf("c13:mismatch", "network %s IP #%d: plugin configures %s/%d gw %s vlan %d, IPAM allocated %s/%d gw %s vlan %d "+
					"(all allocated in order: %s)", rec.Network, i, gotIP, ones, r020.IP4.Gateway, vlans[i], expectIPs[i], ep.MaskLen(), ep.Gateway,
					ep.Vlan, strings.Join(expectIPs, ","))
			}
		}
	}
	cid2 := ContainerID("c13p")
	defer RemoveState(cid2)
	if code, body := d.Request("ADD", cid2, ipamsim.NS, "plain-0", "eth0", ""); code != 200 {
		return vcore.Failf("c13:add", "ADD of the pod without floating IP failed: %d %s", code, body)
	}
	for _, rec := range env.Log()[len(log):] {
		if strings.Contains(rec.Args, "ipinfos=") {
			return vcore.Failf("c13:foreign_ips", "IPAM allocated nothing for pod plain-0, but its plugin %s is told to configure %s (the IPs "+
				"allocated for %s)", rec.Network, rec.Args, pod.Name)
		}
	}
	r.ClassIf(c.K >= 2, "k_ge_2")
	r.ClassIf(c.Second, "ips_from_two_pools")
	r.ClassIf(c.Vlan != 0, "vlan")
	r.ClassIf(c.PrefixLen != 24, "mask_not_24")
	if c.K >= 2 || c.Vlan != 0 || c.PrefixLen != 24 {
		r.NonTrivial()
	}
	return nil
}

func TestC13(t *testing.T) { vcore.Run(t, "C13", genC13(), checkC13) }
