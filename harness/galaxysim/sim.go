// Package galaxysim is engine E2: the real galaxy daemon request path (cni handler -> network resolution -> cniutil
// CmdAdd/CmdDel -> invoke.ExecPlugin) driving recording fake CNI plugin binaries.
package galaxysim

import (
	"bufio"
	"bytes"
	"crypto/sha1"
	"encoding/json"
	"fmt"
	"k8s.io/client-go/kubernetes"
	"net/http"
	"net/http/httptest"
	"os"
	"path/filepath"
	"strings"
	"sync/atomic"

	"github.com/emicklei/go-restful"
	corev1 "k8s.io/api/core/v1"
	"k8s.io/apimachinery/pkg/api/resource"
	metav1 "k8s.io/apimachinery/pkg/apis/meta/v1"
	"k8s.io/apimachinery/pkg/runtime"
	k8sfake "k8s.io/client-go/kubernetes/fake"
	k8stesting "k8s.io/client-go/testing"
	galaxyapi "tkestack.io/galaxy/pkg/api/galaxy"
	"tkestack.io/galaxy/pkg/api/galaxy/constant"
	"tkestack.io/galaxy/pkg/galaxy"
	"tkestack.io/galaxy/pkg/network/portmapping"
	iptablesTest "tkestack.io/galaxy/pkg/utils/iptables/testing"
)

// Record is one invocation logged by the fake plugin.
type Record struct {
	Binary      string          `json:"binary"`
	Command     string          `json:"command"`
	ContainerID string          `json:"container_id"`
	Netns       string          `json:"netns"`
	IfName      string          `json:"ifname"`
	Args        string          `json:"args"`
	Path        string          `json:"path"`
	Stdin       json.RawMessage `json:"stdin"`
	Network     string          `json:"network"`
	Nth         int             `json:"nth"`
	Failed      bool            `json:"failed"`
}

// ResultIP is the address the fake plugin reports for a network name (same function as in cmd/fakecni).
func ResultIP(network string) string {
	h := sha1.Sum([]byte(network))
	return fmt.Sprintf("10.%d.%d.%d", 100+int(h[0])%100, h[1], 2+int(h[2])%250)
}

var seq int64

// Env is the per-process plugin environment (binaries, log and failure-script directories).
type Env struct {
	Dir     string
	BinDir  string
	CNIPath string
}

// PluginTypes are the names the fake binary is installed under.
var PluginTypes = []string{"fake-a", "fake-b", "fake-c", "fake-d"}

// NewEnv installs the fake plugin (built by the driver into $VERIF_BIN_DIR/fakecni) under several names.
func NewEnv() (*Env, error) {
	src := filepath.Join(os.Getenv("VERIF_BIN_DIR"), "fakecni")
	if _, err := os.Stat(src); err != nil {
		return nil, fmt.Errorf("fake plugin binary %s missing: %v", src, err)
	}
	base := "/dev/shm"
	if _, err := os.Stat(base); err != nil {
		base = os.TempDir()
	}
	dir, err := os.MkdirTemp(base, "fakecni-")
	if err != nil {
		return nil, err
	}
	e := &Env{Dir: dir, BinDir: filepath.Join(dir, "bin")}
	for _, d := range []string{"bin", "count", "fail", "conf"} {
		if err := os.MkdirAll(filepath.Join(dir, d), 0755); err != nil {
			return nil, err
		}
	}
	data, err := os.ReadFile(src)
	if err != nil {
		return nil, err
	}
	for _, n := range PluginTypes {
		if err := os.WriteFile(filepath.Join(e.BinDir, n), data, 0755); err != nil {
			return nil, err
		}
	}
	e.CNIPath = e.BinDir
	os.Setenv("FAKECNI_DIR", dir)
	return e, nil
}

func (e *Env) Close() { os.RemoveAll(e.Dir) }

// Reset clears log, counters and failure script (between cases).
func (e *Env) Reset() {
	os.Remove(filepath.Join(e.Dir, "log"))
	for _, d := range []string{"count", "fail", "conf", "ip"} {
		os.RemoveAll(filepath.Join(e.Dir, d))
		os.MkdirAll(filepath.Join(e.Dir, d), 0755)
	}
}

// Fail scripts the n-th (1-based) call of (container, network, command) to fail.
func (e *Env) Fail(container, network, command string, nth int) {
	os.WriteFile(filepath.Join(e.Dir, "fail", fmt.Sprintf("%s.%s.%s.%d", container, network, command, nth)), nil, 0644)
}

// Log returns the invocation records in invocation order.
func (e *Env) Log() []Record {
	f, err := os.Open(filepath.Join(e.Dir, "log"))
	if err != nil {
		return nil
	}
	defer f.Close()
	var out []Record
	sc := bufio.NewScanner(f)
	sc.Buffer(make([]byte, 1<<20), 1<<24)
	for sc.Scan() {
		var r Record
		if json.Unmarshal(sc.Bytes(), &r) == nil {
			out = append(out, r)
		}
	}
	return out
}

// ContainerID returns a process-unique container id (cniutil's state directory is a constant path).
func ContainerID(tag string) string {
	return fmt.Sprintf("vf%d-%d-%s", os.Getpid(), atomic.AddInt64(&seq, 1), tag)
}

// Daemon wraps a galaxy instance on a fake kube client.
type Daemon struct {
	G    *galaxy.Galaxy
	Kube *k8sfake.Clientset
	Env  *Env
}

func NewDaemon(e *Env, conf galaxy.JsonConf, netConfDir string, pods []*corev1.Pod) (*Daemon, error) {
	kube := k8sfake.NewSimpleClientset()
	for _, p := range pods {
		if err := kube.Tracker().Add(p); err != nil {
			return nil, err
		}
	}
	pmh := portmapping.New("")
	pmh.Interface = iptablesTest.NewFakeIPTables()
	g, err := galaxy.VerifNewGalaxy(conf, netConfDir, nil, kube, pmh, nil)
	if err != nil {
		return nil, err
	}
	return &Daemon{G: g, Kube: kube, Env: e}, nil
}

// NewDaemonWith builds a galaxy instance on a given API-server fake and port-mapping handler (a restarted daemon sees the same
// API objects and the same kernel state as its predecessor).
func NewDaemonWith(e *Env, conf galaxy.JsonConf, netConfDir string, kube *k8sfake.Clientset, pmh *portmapping.PortMappingHandler) (*Daemon, error) {
	g, err := galaxy.VerifNewGalaxy(conf, netConfDir, nil, kube, pmh, nil)
	if err != nil {
		return nil, err
	}
	return &Daemon{G: g, Kube: kube, Env: e}, nil
}

// NewDaemonClient builds a galaxy instance on an arbitrary API-server double.
func NewDaemonClient(e *Env, conf galaxy.JsonConf, netConfDir string, client kubernetes.Interface) (*Daemon, error) {
	pmh := portmapping.New("")
	pmh.Interface = iptablesTest.NewFakeIPTables()
	g, err := galaxy.VerifNewGalaxy(conf, netConfDir, nil, client, pmh, nil)
	if err != nil {
		return nil, err
	}
	return &Daemon{G: g, Env: e}, nil
}

// PinIP makes the fake plugins report ip for the container.
func (e *Env) PinIP(containerID, ip string) {
	os.MkdirAll(filepath.Join(e.Dir, "ip"), 0755)
	os.WriteFile(filepath.Join(e.Dir, "ip", containerID), []byte(ip), 0644)
}

// AnyPod makes the fake API server answer every pod Get that would be NotFound with a copy of the template.
func (d *Daemon) AnyPod(tmpl *corev1.Pod) {
	d.Kube.PrependReactor("get", "pods", func(a k8stesting.Action) (bool, runtime.Object, error) {
		ga, ok := a.(k8stesting.GetAction)
		if !ok {
			return false, nil, nil
		}
		if _, err := d.Kube.Tracker().Get(corev1.SchemeGroupVersion.WithResource("pods"), a.GetNamespace(), ga.GetName()); err == nil {
			return false, nil, nil
		}
		p := tmpl.DeepCopy()
		p.Name, p.Namespace = ga.GetName(), a.GetNamespace()
		return true, p, nil
	})
}

// Pod builds a pod object.
func Pod(ns, name string, annotations map[string]string, wantENI bool) *corev1.Pod {
	p := &corev1.Pod{ObjectMeta: metav1.ObjectMeta{Name: name, Namespace: ns, Annotations: annotations},
		Spec: corev1.PodSpec{Containers: []corev1.Container{{Name: "c"}}}}
	if wantENI {
		q := resource.NewQuantity(1, resource.DecimalSI)
		p.Spec.Containers[0].Resources.Requests = corev1.ResourceList{corev1.ResourceName(constant.ResourceName): *q}
	}
	return p
}

// Request sends a CNI request through the real /cni handler (in-process); returns HTTP status and body.
func (d *Daemon) Request(cmd, containerID, ns, pod, ifname string, extraArgs string) (int, string) {
	args := fmt.Sprintf("IgnoreUnknown=1;K8S_POD_NAMESPACE=%s;K8S_POD_NAME=%s;K8S_POD_INFRA_CONTAINER_ID=%s", ns, pod, containerID)
	if extraArgs != "" {
		args += ";" + extraArgs
	}
	cr := galaxyapi.CNIRequest{Env: map[string]string{
		"CNI_COMMAND": cmd, "CNI_CONTAINERID": containerID, "CNI_NETNS": "/proc/1/ns/net", "CNI_IFNAME": ifname,
		"CNI_PATH": d.Env.CNIPath, "CNI_ARGS": args},
		Config: []byte(`{"cniVersion":"0.2.0","name":"galaxy-sdn","type":"galaxy-sdn"}`)}
	body, _ := json.Marshal(cr)
	return d.RawRequest(body)
}

// RawRequest posts arbitrary bytes to the /cni handler.
func (d *Daemon) RawRequest(body []byte) (int, string) {
	req := httptest.NewRequest(http.MethodPost, "/cni", bytes.NewReader(body))
	rw := httptest.NewRecorder()
	d.G.VerifCNI(restful.NewRequest(req), restful.NewResponse(rw))
	return rw.Code, strings.TrimSpace(rw.Body.String())
}

// StateFileExists tells whether cniutil still has a saved network list for the container.
func StateFileExists(containerID string) bool {
	_, err := os.Stat(filepath.Join("/var/lib/cni/galaxy", containerID))
	return err == nil
}

func RemoveState(containerID string) {
	os.Remove(filepath.Join("/var/lib/cni/galaxy", containerID))
	os.Remove(filepath.Join("/var/lib/cni/galaxy/port", containerID))
}

// NewEnvNoPlugins builds an environment without plugin binaries (network types resolve to nothing).
func NewEnvNoPlugins() (*Env, error) {
	base := "/dev/shm"
	if _, err := os.Stat(base); err != nil {
		base = os.TempDir()
	}
	dir, err := os.MkdirTemp(base, "fakecni-")
	if err != nil {
		return nil, err
	}
	e := &Env{Dir: dir, BinDir: filepath.Join(dir, "bin"), CNIPath: filepath.Join(dir, "bin")}
	for _, d := range []string{"bin", "count", "fail", "conf"} {
		if err := os.MkdirAll(filepath.Join(dir, d), 0755); err != nil {
			return nil, err
		}
	}
	os.Setenv("FAKECNI_DIR", dir)
	return e, nil
}
