package galaxysim

import (
	"encoding/json"
	"fmt"
	"os"
	"path/filepath"
	"sort"
	"strings"
	"sync"
	"testing"

	corev1 "k8s.io/api/core/v1"
	"pgregory.net/rapid"
	"tkestack.io/galaxy/pkg/api/cniutil"
	"tkestack.io/galaxy/pkg/api/galaxy/constant"
	"tkestack.io/galaxy/pkg/galaxy"
	"verifharness/vcore"
)

var env *Env

func TestMain(m *testing.M) {
	vcore.QuietKlog()
	var err error
	env, err = NewEnv()
	if err != nil {
		fmt.Println("galaxysim:", err)
		os.Exit(2)
	}
	code := m.Run()
	env.Close()
	os.Exit(code)
}

// ---------- C12: CNI multi-network ADD/DEL is ordered, paired, rolled back and isolated ----------

type netDef struct {
	Name   string `json:"name"`
	Type   int    `json:"type"`   // index into PluginTypes
	Source int    `json:"source"` // 0 inline with name, 1 inline keyed by type (no name), 2 .conf file in the conf dir, 3 .conflist file
}

type podDef struct {
	Name    string   `json:"name"`
	Form    int      `json:"form"` // 0 no networks annotation, 1 comma list, 2 JSON list
	Nets    []int    `json:"nets"`
	IfNames []string `json:"ifnames"`
	WithNs  bool     `json:"with_ns"` // comma form written as ns/net
	WantENI bool     `json:"want_eni"`
	ExtArgs bool     `json:"ext_args"`
}

type reqDef struct {
	Pod       int    `json:"pod"`
	Container int    `json:"container"` // container slot of that pod (0..1)
	Cmd       string `json:"cmd"`
	IfName    string `json:"ifname"`
	// Cmd TRUNC: not a request - the daemon died while it was writing the container's state file, Cut/8 of the record reached the disk
	Cut int `json:"cut,omitempty"`
}

type failDef struct {
	Pod, Container, Net int
	Cmd                 string
	Nth                 int
}

type c12Case struct {
	Nets       []netDef  `json:"nets"`
	Defaults   []int     `json:"defaults"`
	ENINet     int       `json:"eni_net"` // -1 none
	Pods       []podDef  `json:"pods"`
	Reqs       []reqDef  `json:"reqs"`
	Fails      []failDef `json:"fails"`
	Concurrent bool      `json:"concurrent"`
}

func (n netDef) key() string {
	if n.Source == 1 {
		return PluginTypes[n.Type]
	}
	return n.Name
}

func genC12() *rapid.Generator[c12Case] {
	return rapid.Custom(func(t *rapid.T) c12Case {
		c := c12Case{ENINet: -1}
		nn := rapid.IntRange(1, 4).Draw(t, "nNets")
		usedType := map[int]bool{}
		for i := 0; i < nn; i++ {
			n := netDef{Name: fmt.Sprintf("net%d", i), Type: rapid.IntRange(0, len(PluginTypes)-1).Draw(t, "type")}
			switch rapid.IntRange(0, 9).Draw(t, "source") {
			case 0, 1:
				if !usedType[n.Type] {
					n.Source = 1
					usedType[n.Type] = true
				}
			case 2, 3, 4:
				n.Source = 2
			case 5:
				if rapid.IntRange(0, 3).Draw(t, "conflist") == 0 {
					n.Source = 3
				}
			}
			c.Nets = append(c.Nets, n)
		}
		nd := rapid.IntRange(1, 3).Draw(t, "nDefaults")
		for i := 0; i < nd; i++ {
			c.Defaults = append(c.Defaults, rapid.IntRange(0, nn-1).Draw(t, "default"))
		}
		if rapid.Bool().Draw(t, "eni") {
			c.ENINet = rapid.IntRange(0, nn-1).Draw(t, "eniNet")
		}
		np := rapid.IntRange(1, 3).Draw(t, "nPods")
		for i := 0; i < np; i++ {
			p := podDef{Name: fmt.Sprintf("pod%d", i), Form: rapid.IntRange(0, 2).Draw(t, "form"), WantENI: rapid.Bool().Draw(t, "wantEni"),
				ExtArgs: rapid.Bool().Draw(t, "extArgs"), WithNs: rapid.Bool().Draw(t, "withNs")}
			if p.Form != 0 {
				k := rapid.IntRange(1, 4).Draw(t, "k")
				for j := 0; j < k; j++ {
					p.Nets = append(p.Nets, rapid.IntRange(0, nn-1).Draw(t, "net"))
					p.IfNames = append(p.IfNames, rapid.SampledFrom([]string{"", "", "net1", "eth9", "x0"}).Draw(t, "ifname"))
				}
			}
			c.Pods = append(c.Pods, p)
		}
		// request sequence: every container starts with one ADD, then DELs (repeated, retried)
		nr := rapid.IntRange(1, 8).Draw(t, "nReqs")
		added := map[[2]int]bool{}
		for i := 0; i < nr; i++ {
			r := reqDef{Pod: rapid.IntRange(0, np-1).Draw(t, "reqPod"), Container: rapid.IntRange(0, 1).Draw(t, "reqContainer"),
				IfName: rapid.SampledFrom([]string{"eth0", "eth0", "eth1"}).Draw(t, "kubeletIf")}
			k := [2]int{r.Pod, r.Container}
			if !added[k] {
				r.Cmd = "ADD"
				added[k] = true
			} else {
				r.Cmd = "DEL"
			}
			c.Reqs = append(c.Reqs, r)
		}
		if rapid.IntRange(0, 4).Draw(t, "truncated") == 0 {
			// after some request of a container that may have left a state file: the file is cut short; the container is then deleted
			// (twice: kubelet repeats the DEL)
			at := rapid.IntRange(0, len(c.Reqs)-1).Draw(t, "truncAt")
			rq := c.Reqs[at]
			tr := reqDef{Pod: rq.Pod, Container: rq.Container, Cmd: "TRUNC", Cut: rapid.IntRange(0, 7).Draw(t, "cut")}
			dl := reqDef{Pod: rq.Pod, Container: rq.Container, Cmd: "DEL", IfName: rq.IfName}
			c.Reqs = append(c.Reqs[:at+1:at+1], append([]reqDef{tr}, c.Reqs[at+1:]...)...)
			c.Reqs = append(c.Reqs, dl, dl)
		}
		nf := rapid.IntRange(0, 4).Draw(t, "nFails")
		for i := 0; i < nf; i++ {
			c.Fails = append(c.Fails, failDef{Pod: rapid.IntRange(0, np-1).Draw(t, "fPod"), Container: rapid.IntRange(0, 1).Draw(t, "fCont"),
				Net: rapid.IntRange(0, nn-1).Draw(t, "fNet"), Cmd: rapid.SampledFrom([]string{"ADD", "DEL", "DEL"}).Draw(t, "fCmd"),
				Nth: rapid.IntRange(1, 2).Draw(t, "fNth")})
		}
		c.Concurrent = rapid.IntRange(0, 3).Draw(t, "concurrent") == 0
		return c
	})
}

type modelNet struct {
	idx    int
	ifname string
}

// expected is one expected plugin invocation.
type expected struct {
	cmd     string
	net     int
	ifname  string
	prev    int // index of the network whose result must be the prevResult in stdin (-1 none)
	invoked bool
}

func (c *c12Case) staticConf(n netDef) map[string]interface{} {
	m := map[string]interface{}{"type": PluginTypes[n.Type], "cniVersion": "0.2.0", "marker": "static-" + n.Name}
	if n.Source != 1 {
		m["name"] = n.Name
	}
	return m
}

// selectNets is the reference model of network selection and interface naming.
func (c *c12Case) selectNets(p podDef, kubeletIf string) []modelNet {
	var out []modelNet
	if p.Form == 0 {
		if p.WantENI && c.ENINet >= 0 {
			return []modelNet{{c.ENINet, kubeletIf}}
		}
		for i, d := range c.Defaults {
			ifn := kubeletIf
			if i > 0 {
				ifn = fmt.Sprintf("eth%d", i)
			}
			out = append(out, modelNet{d, ifn})
		}
		return out
	}
	for i, n := range p.Nets {
		ifn := kubeletIf
		if i > 0 {
			ifn = p.IfNames[i]
			if ifn == "" {
				ifn = fmt.Sprintf("eth%d", i)
			}
		}
		out = append(out, modelNet{n, ifn})
	}
	return out
}

func (c *c12Case) annotation(p podDef) map[string]string {
	a := map[string]string{}
	if p.Form == 1 {
		var items []string
		for i, n := range p.Nets {
			s := c.Nets[n].key()
			if p.WithNs {
				s = "kube-system/" + s
			}
			if p.IfNames[i] != "" {
				s += "@" + p.IfNames[i]
			}
			items = append(items, s)
		}
		a[constant.MultusCNIAnnotation] = strings.Join(items, ", ")
	} else if p.Form == 2 {
		var items []map[string]string
		for i, n := range p.Nets {
			m := map[string]string{"name": c.Nets[n].key()}
			if p.IfNames[i] != "" {
				m["interface"] = p.IfNames[i]
			}
			items = append(items, m)
		}
		data, _ := json.Marshal(items)
		a[constant.MultusCNIAnnotation] = string(data)
	}
	if p.ExtArgs {
		a[constant.ExtendedCNIArgsAnnotation] = fmt.Sprintf(`{"common":{"ipinfos":[{"ip":"10.9.%d.2/24","vlan":3,"gateway":"10.9.0.1"}],"tag":"%s"}}`, len(p.Name), p.Name)
	}
	return a
}

func checkC12(c c12Case, r *vcore.Rec) *vcore.Failure {
	env.Reset()
	confDir := filepath.Join(env.Dir, "conf")
	conf := galaxy.JsonConf{}
	for _, n := range c.Nets {
		sc := c.staticConf(n)
		switch n.Source {
		case 0, 1:
			conf.NetworkConf = append(conf.NetworkConf, sc)
		case 2:
			data, _ := json.Marshal(sc)
			os.WriteFile(filepath.Join(confDir, n.Name+".conf"), data, 0644)
		case 3:
			data, _ := json.Marshal(map[string]interface{}{"name": n.Name, "cniVersion": "0.2.0", "plugins": []interface{}{sc}})
			os.WriteFile(filepath.Join(confDir, n.Name+".conflist"), data, 0644)
		}
	}
	for _, d := range c.Defaults {
		conf.DefaultNetworks = append(conf.DefaultNetworks, c.Nets[d].key())
	}
	if c.ENINet >= 0 {
		conf.ENIIPNetwork = c.Nets[c.ENINet].key()
	}
	var pods []*corev1.Pod
	for _, p := range c.Pods {
		pods = append(pods, Pod("ns1", p.Name, c.annotation(p), p.WantENI))
	}
	d, err := NewDaemon(env, conf, confDir, pods)
	if err != nil {
		return vcore.Failf("harness:init", "daemon construction failed: %v", err)
	}
	// container ids
	cids := map[[2]int]string{}
	var allCids []string
	for pi := range c.Pods {
		for ci := 0; ci < 2; ci++ {
			id := ContainerID(fmt.Sprintf("p%dc%d", pi, ci))
			cids[[2]int{pi, ci}] = id
			allCids = append(allCids, id)
		}
	}
	defer func() {
		for _, id := range allCids {
			RemoveState(id)
		}
	}()
	for _, f := range c.Fails {
		env.Fail(cids[[2]int{f.Pod, f.Container}], c.Nets[f.Net].key(), f.Cmd, f.Nth)
	}
	scripted := func(pi, ci, net int, cmd string, nth int) bool {
		for _, f := range c.Fails {
			if f.Pod == pi && f.Container == ci && f.Cmd == cmd && f.Nth == nth && c.Nets[f.Net].key() == c.Nets[net].key() {
				return true
			}
		}
		return false
	}
	// ---- reference model: expected invocations per container, and expected request outcomes
	type contState struct {
		saved  []modelNet // nil = no state file
		counts map[string]int
		// corrupt: the state file holds only a prefix of the record (the daemon died while writing it)
		corrupt bool
	}
	states := map[[2]int]*contState{}
	expectLog := map[[2]int][]expected{}
	expectOK := make([]bool, len(c.Reqs))
	injected, multi, truncated := false, false, false
	for ri, rq := range c.Reqs {
		k := [2]int{rq.Pod, rq.Container}
		st := states[k]
		if st == nil {
			st = &contState{counts: map[string]int{}}
			states[k] = st
		}
		call := func(cmd string, mn modelNet, prev int) bool {
			nd := c.Nets[mn.idx]
			if nd.Source == 3 {
				// a .conflist has no top-level type: the delegate cannot be executed, ADD and DEL of it fail without an invocation
				expectLog[k] = append(expectLog[k], expected{cmd: cmd, net: mn.idx, ifname: mn.ifname, prev: prev, invoked: false})
				return false
			}
			st.counts[cmd+nd.key()]++
			fail := scripted(rq.Pod, rq.Container, mn.idx, cmd, st.counts[cmd+nd.key()])
			if fail {
				injected = true
			}
			expectLog[k] = append(expectLog[k], expected{cmd: cmd, net: mn.idx, ifname: mn.ifname, prev: prev, invoked: true})
			return !fail
		}
		del := func(list []modelNet, last int) bool {
			var fails []modelNet
			for j := last; j >= 0; j-- {
				if !call("DEL", list[j], -1) {
					fails = append(fails, list[j])
				}
			}
			if len(fails) > 0 {
				// saved in original (ascending) order
				for i, j := 0, len(fails)-1; i < j; i, j = i+1, j-1 {
					fails[i], fails[j] = fails[j], fails[i]
				}
				st.saved = fails
				return false
			}
			st.saved = nil
			return true
		}
		if rq.Cmd == "TRUNC" {
			if st.saved != nil {
				st.corrupt = true
			}
			expectOK[ri] = true
			continue
		}
		if rq.Cmd == "DEL" && st.corrupt {
			// the record cannot be read: this DEL reports it and throws it away without invoking anything; later DELs succeed
			st.corrupt, st.saved = false, nil
			expectOK[ri] = false
			truncated = true
			continue
		}
		if rq.Cmd == "ADD" {
			st.corrupt = false
			nets := c.selectNets(c.Pods[rq.Pod], rq.IfName)
			if len(nets) >= 2 {
				multi = true
			}
			ok := true
			st.saved = nets
			for i, mn := range nets {
				prev := -1
				if i > 0 {
					prev = nets[i-1].idx
				}
				if !call("ADD", mn, prev) {
					ok = false
					del(nets, i)
					break
				}
			}
			if len(nets) == 0 {
				ok = false
				st.saved = nil
			}
			expectOK[ri] = ok
		} else {
			if st.saved == nil {
				expectOK[ri] = true
			} else {
				list := st.saved
				expectOK[ri] = del(list, len(list)-1)
			}
		}
	}
	// ---- run the requests against the real daemon
	results := make([]int, len(c.Reqs))
	bodies := make([]string, len(c.Reqs))
	run := func(ri int) {
		rq := c.Reqs[ri]
		if rq.Cmd == "TRUNC" {
			path := filepath.Join("/var/lib/cni/galaxy", cids[[2]int{rq.Pod, rq.Container}])
			if data, err := os.ReadFile(path); err == nil {
				_ = os.WriteFile(path, data[:len(data)*rq.Cut/8], 0600)
			}
			results[ri] = 200
			return
		}
		results[ri], bodies[ri] = d.Request(rq.Cmd, cids[[2]int{rq.Pod, rq.Container}], "ns1", c.Pods[rq.Pod].Name, rq.IfName, "")
	}
	overlapped := false
	if c.Concurrent {
		// requests of different containers run concurrently; the requests of one container stay in order (kubelet serialises them)
		var wg sync.WaitGroup
		byCont := map[[2]int][]int{}
		for ri, rq := range c.Reqs {
			byCont[[2]int{rq.Pod, rq.Container}] = append(byCont[[2]int{rq.Pod, rq.Container}], ri)
		}
		overlapped = len(byCont) >= 2
		for _, list := range byCont {
			wg.Add(1)
			go func(list []int) {
				defer wg.Done()
				for _, ri := range list {
					run(ri)
				}
			}(list)
		}
		wg.Wait()
	} else {
		for ri := range c.Reqs {
			run(ri)
		}
	}
	log := env.Log()
	for ri, rq := range c.Reqs {
		r.Logf("req %d %s pod=%s cont=%d if=%s -> %d %s (expected ok=%v)", ri, rq.Cmd, c.Pods[rq.Pod].Name, rq.Container, rq.IfName, results[ri],
			trunc(bodies[ri], 160), expectOK[ri])
	}
	for _, l := range log {
		r.Logf("  plugin %s %s %s net=%s if=%s failed=%v args=%s stdin=%s", l.Binary, l.Command, l.ContainerID, l.Network, l.IfName, l.Failed, l.Args,
			trunc(string(l.Stdin), 300))
	}
	r.ClassIf(injected, "failure_injected")
	r.ClassIf(truncated, "state_file_cut_short")
	r.ClassIf(multi, "multi_network")
	r.ClassIf(overlapped, "containers_interleaved")
	if multi && (injected || overlapped) {
		r.NonTrivial()
	}
	// ---- compare
	for ri := range c.Reqs {
		if (results[ri] == 200) != expectOK[ri] {
			return vcore.Failf("c12:outcome", "request %d (%s %s container %d): HTTP %d %s, model expects success=%v", ri, c.Reqs[ri].Cmd,
				c.Pods[c.Reqs[ri].Pod].Name, c.Reqs[ri].Container, results[ri], trunc(bodies[ri], 200), expectOK[ri])
		}
	}
	for k, exp := range expectLog {
		cid := cids[k]
		var got []Record
		for _, l := range log {
			if l.ContainerID == cid {
				got = append(got, l)
			}
		}
		var want []expected
		for _, e := range exp {
			if e.invoked {
				want = append(want, e)
			}
		}
		if len(got) != len(want) {
			return vcore.Failf("c12:invocations", "container %v of pod %s: %d plugin invocations, model expects %d: got %s want %s", k[1],
				c.Pods[k[0]].Name, len(got), len(want), fmtGot(got), fmtWant(&c, want))
		}
		pod := c.Pods[k[0]]
		for i := range want {
			g, w := got[i], want[i]
			nd := c.Nets[w.net]
			if g.Command != w.cmd || g.Network != nd.key() || g.Binary != PluginTypes[nd.Type] {
				return vcore.Failf("c12:order", "container %d of pod %s, invocation %d: got %s %s (%s), model expects %s %s: got %s want %s", k[1],
					pod.Name, i, g.Command, g.Network, g.Binary, w.cmd, nd.key(), fmtGot(got), fmtWant(&c, want))
			}
			if g.IfName != w.ifname {
				return vcore.Failf("c12:ifname", "container %d of pod %s: %s of %s on interface %q, model expects %q", k[1], pod.Name, g.Command,
					g.Network, g.IfName, w.ifname)
			}
			// isolation: stdin = static configuration of that network (+ the result of this container's previous delegate on ADD)
			var stdin map[string]interface{}
			if err := json.Unmarshal(g.Stdin, &stdin); err != nil {
				return vcore.Failf("c12:stdin", "plugin stdin is not JSON: %s", g.Stdin)
			}
			prev, hasPrev := stdin["prevResult"]
			delete(stdin, "prevResult")
			wantConf := c.staticConf(nd)
			a, _ := json.Marshal(stdin)
			b, _ := json.Marshal(wantConf)
			if string(a) != string(b) {
				return vcore.Failf("c12:isolation_conf", "container %d of pod %s: %s of %s received configuration %s, static configuration is %s", k[1],
					pod.Name, g.Command, g.Network, a, b)
			}
			if w.cmd == "ADD" && w.prev >= 0 {
				pj, _ := json.Marshal(prev)
				if !hasPrev || !strings.Contains(string(pj), ResultIP(c.Nets[w.prev].key())) {
					return vcore.Failf("c12:prev_result", "container %d of pod %s: ADD of %s should carry the result of its previous delegate %s (%s) as "+
						"prevResult, got %s", k[1], pod.Name, g.Network, c.Nets[w.prev].key(), ResultIP(c.Nets[w.prev].key()), pj)
				}
			} else if hasPrev {
				pj, _ := json.Marshal(prev)
				return vcore.Failf("c12:isolation_prev", "container %d of pod %s: %s of %s (no previous delegate of its own) received prevResult %s "+
					"left over from another request", k[1], pod.Name, g.Command, g.Network, pj)
			}
			// arguments: kubelet's own + the pod's extended args, nothing else
			kv, _ := cniutil.ParseCNIArgs(g.Args)
			wantKV := map[string]string{"IgnoreUnknown": "1", "K8S_POD_NAMESPACE": "ns1", "K8S_POD_NAME": pod.Name, "K8S_POD_INFRA_CONTAINER_ID": cid}
			if pod.ExtArgs {
				wantKV["ipinfos"] = fmt.Sprintf(`[{"ip":"10.9.%d.2/24","vlan":3,"gateway":"10.9.0.1"}]`, len(pod.Name))
				wantKV["tag"] = fmt.Sprintf("%q", pod.Name)
			}
			if !sameKV(kv, wantKV) {
				return vcore.Failf("c12:isolation_args", "container %d of pod %s: %s of %s received args %v, expected %v", k[1], pod.Name, g.Command,
					g.Network, sortedKV(kv), sortedKV(wantKV))
			}
		}
	}
	// no invocation for a container the model does not know
	for _, l := range log {
		known := false
		for k := range expectLog {
			if cids[k] == l.ContainerID {
				known = true
			}
		}
		if !known {
			return vcore.Failf("c12:stray", "plugin invoked for container %s which received no request that should reach a plugin", l.ContainerID)
		}
	}
	return nil
}

func trunc(s string, n int) string {
	if len(s) > n {
		return s[:n] + "..."
	}
	return s
}

func fmtGot(g []Record) string {
	var out []string
	for _, x := range g {
		out = append(out, x.Command+":"+x.Network)
	}
	return "[" + strings.Join(out, " ") + "]"
}

func fmtWant(c *c12Case, w []expected) string {
	var out []string
	for _, x := range w {
		out = append(out, x.cmd+":"+c.Nets[x.net].key())
	}
	return "[" + strings.Join(out, " ") + "]"
}

func sameKV(a, b map[string]string) bool {
	if len(a) != len(b) {
		return false
	}
	for k, v := range a {
		if b[k] != v {
			return false
		}
	}
	return true
}

func sortedKV(m map[string]string) []string {
	var out []string
	for k, v := range m {
		out = append(out, k+"="+v)
	}
	sort.Strings(out)
	return out
}

func TestC12(t *testing.T) { vcore.Run(t, "C12", genC12(), checkC12) }
