// Package vcore is the shared runner of the verification harness: it drives a property function over
// rapid-generated cases ("case-as-data"), records coverage statistics, writes failure records / replay files,
// applies the known-findings file and implements replay without the library.
package vcore

import (
	"crypto/sha1"
	"encoding/hex"
	"encoding/json"
	"flag"
	"fmt"
	"io"
	"os"
	"path/filepath"
	"runtime"
	"runtime/debug"
	"sort"
	"strconv"
	"strings"
	"sync"
	"testing"
	"time"

	"k8s.io/klog"
	"pgregory.net/rapid"
)

// QuietKlog silences the klog output of the code under test.
func QuietKlog() {
	fs := flag.NewFlagSet("klog", flag.ContinueOnError)
	klog.InitFlags(fs)
	_ = fs.Set("logtostderr", "false")
	_ = fs.Set("alsologtostderr", "false")
	_ = fs.Set("stderrthreshold", "FATAL")
	klog.SetOutput(io.Discard)
}

// Failure is the result of a violated oracle.
type Failure struct {
	Msg   string   `json:"msg"`
	Sig   string   `json:"sig,omitempty"` // machine-checkable class of the failure, matched against known findings
	Trace []string `json:"trace,omitempty"`
}

func Failf(sig, format string, a ...interface{}) *Failure {
	return &Failure{Sig: sig, Msg: fmt.Sprintf(format, a...)}
}

// Rec is handed to a property function to describe the executed case.
type Rec struct {
	classes    map[string]bool
	nontrivial bool
	trace      []string
	keepTrace  bool
}

func (r *Rec) Class(name string) {
	if r.classes == nil {
		r.classes = map[string]bool{}
	}
	r.classes[name] = true
}
func (r *Rec) ClassIf(cond bool, name string) {
	if cond {
		r.Class(name)
	}
}
func (r *Rec) NonTrivial()        { r.nontrivial = true }
func (r *Rec) IsNonTrivial() bool { return r.nontrivial }
func (r *Rec) Logf(format string, a ...interface{}) {
	if len(r.trace) < 4000 {
		r.trace = append(r.trace, fmt.Sprintf(format, a...))
	}
}
func (r *Rec) Trace() []string { return r.trace }

type known struct {
	Property string `json:"property"`
	ID       string `json:"id"`
	Status   string `json:"status"`
	Sig      string `json:"signature"`
	What     string `json:"what"`
	Witness  string `json:"witness,omitempty"`
}

// Stats is what one process measured.
type Stats struct {
	Property        string           `json:"property"`
	Seed            uint64           `json:"seed"`
	Evaluations     int              `json:"evaluations"`
	NontrivialHash  []string         `json:"nontrivial_hashes"`
	Classes         map[string]int   `json:"classes"`
	Excluded        map[string]int   `json:"excluded_known"`
	Samples         []interface{}    `json:"samples"`
	Failures        int              `json:"failures"`
	Extra           map[string]int64 `json:"extra,omitempty"`
	WallS           float64          `json:"wall_s"`
	Requested       int              `json:"requested"`
	ntSet           map[string]struct{}
	mu              sync.Mutex
	frozen          bool
	knownSeen       map[string]bool
	KnownHit        []string `json:"known_hit"`
	KnownWitnessHit []string `json:"known_witness_hit"`
}

var (
	cur     *Stats
	curLock sync.Mutex
)

// Extra adds to a free-form counter of the running property.
func Extra(name string, n int64) {
	curLock.Lock()
	defer curLock.Unlock()
	if cur == nil || cur.frozen {
		return
	}
	if cur.Extra == nil {
		cur.Extra = map[string]int64{}
	}
	cur.Extra[name] += n
}

func outDir() string {
	d := os.Getenv("VERIF_OUT")
	if d == "" {
		d = os.TempDir()
	}
	return d
}

func shard() string {
	s := os.Getenv("VERIF_SHARD")
	if s == "" {
		return "0"
	}
	return s
}

func loadKnown(prop string) []known {
	p := os.Getenv("VERIF_KNOWN")
	if p == "" {
		return nil
	}
	data, err := os.ReadFile(p)
	if err != nil {
		return nil
	}
	var out []known
	for _, line := range strings.Split(string(data), "\n") {
		line = strings.TrimSpace(line)
		if !strings.HasPrefix(line, "known:") {
			continue
		}
		head := line
		what := ""
		if i := strings.Index(line, " :: "); i >= 0 {
			head, what = line[:i], line[i+4:]
		}
		k := known{Status: "known", What: what}
		for _, tok := range strings.Fields(head)[1:] {
			kv := strings.SplitN(tok, "=", 2)
			if len(kv) != 2 {
				continue
			}
			switch kv[0] {
			case "property":
				k.Property = kv[1]
			case "id":
				k.ID = kv[1]
			case "signature":
				k.Sig = kv[1]
			case "witness":
				k.Witness = kv[1]
			}
		}
		if k.Property == prop {
			out = append(out, k)
		}
	}
	return out
}

func matchKnown(ks []known, f *Failure) *known {
	for i := range ks {
		if ks[i].Sig != "" && f.Sig == ks[i].Sig {
			return &ks[i]
		}
	}
	return nil
}

func hashOf(v interface{}) string {
	data, _ := json.Marshal(v)
	h := sha1.Sum(data)
	return hex.EncodeToString(h[:8])
}

type failRecord struct {
	Property string      `json:"property"`
	Case     interface{} `json:"case"`
	Failure  *Failure    `json:"failure"`
	Seed     uint64      `json:"seed"`
	Kind     string      `json:"kind"` // violation | hang | panic
}

func writeJSON(path string, v interface{}) {
	data, err := json.MarshalIndent(v, "", " ")
	if err != nil {
		data = []byte(fmt.Sprintf(`{"error":%q}`, err.Error()))
	}
	tmp := path + ".tmp"
	_ = os.WriteFile(tmp, data, 0644)
	_ = os.Rename(tmp, path)
}

// Guard runs f, converting a panic in the calling goroutine into a Failure.
func Guard(sig string, f func() *Failure) (res *Failure) {
	defer func() {
		if r := recover(); r != nil {
			st := string(debug.Stack())
			res = &Failure{Sig: sig + ":panic", Msg: fmt.Sprintf("panic: %v", r), Trace: strings.Split(st, "\n")}
		}
	}()
	return f()
}

// CaseTimeout is the per-case watchdog (a run-level safety net; expiry is "inconclusive" unless the property
// itself is about hangs, see HangIsViolation).
var CaseTimeout = 60 * time.Second

// HangIsViolation makes a watchdog expiry a violation of the running property (C18).
var HangIsViolation = false

// Run drives check over generated cases, or replays one case when VERIF_REPLAY is set.
func Run[C any](t *testing.T, prop string, gen *rapid.Generator[C], check func(c C, r *Rec) *Failure) {
	ks := loadKnown(prop)
	st := &Stats{Property: prop, Classes: map[string]int{}, Excluded: map[string]int{}, ntSet: map[string]struct{}{},
		knownSeen: map[string]bool{}}
	curLock.Lock()
	cur = st
	curLock.Unlock()
	start := time.Now()
	statsPath := filepath.Join(outDir(), fmt.Sprintf("%s.%s.stats.json", prop, shard()))
	failPath := filepath.Join(outDir(), fmt.Sprintf("%s.%s.fail.json", prop, shard()))
	curPath := filepath.Join(outDir(), fmt.Sprintf("%s.%s.current.json", prop, shard()))
	_ = os.Remove(failPath)
	finish := func() {
		st.mu.Lock()
		defer st.mu.Unlock()
		st.NontrivialHash = []string{}
		for h := range st.ntSet {
			st.NontrivialHash = append(st.NontrivialHash, h)
		}
		sort.Strings(st.NontrivialHash)
		st.WallS = time.Since(start).Seconds()
		writeJSON(statsPath, st)
	}
	defer finish()

	exec := func(c C) (*Failure, *Rec) {
		rec := &Rec{}
		var f *Failure
		done := make(chan struct{})
		timer := time.AfterFunc(CaseTimeout, func() {
			// grace period: a machine stall (VM snapshot, heavy swapping) makes the wall clock jump; a case that finishes
			// within a few seconds of the deadline was stalled, not hung
			select {
			case <-done:
				return
			case <-time.After(5 * time.Second):
			}
			buf := make([]byte, 1<<22)
			n := runtime.Stack(buf, true)
			kind := "hang"
			writeJSON(failPath, failRecord{Property: prop, Case: c, Seed: st.Seed, Kind: kind,
				Failure: &Failure{Sig: "hang", Msg: fmt.Sprintf("case did not finish within %v", CaseTimeout),
					Trace: strings.Split(string(buf[:n]), "\n")}})
			finish()
			if HangIsViolation {
				os.Exit(3)
			}
			os.Exit(4)
		})
		f = Guard(prop, func() *Failure { return check(c, rec) })
		close(done)
		timer.Stop()
		return f, rec
	}

	if rp := os.Getenv("VERIF_REPLAY"); rp != "" {
		data, err := os.ReadFile(rp)
		if err != nil {
			t.Fatalf("read replay: %v", err)
		}
		var fr struct {
			Case json.RawMessage `json:"case"`
		}
		var c C
		if err := json.Unmarshal(data, &fr); err != nil || len(fr.Case) == 0 {
			fr.Case = data
		}
		if err := json.Unmarshal(fr.Case, &c); err != nil {
			t.Fatalf("decode replay case: %v", err)
		}
		times := 1
		if s := os.Getenv("VERIF_REPLAY_TIMES"); s != "" {
			times, _ = strconv.Atoi(s)
		}
		hits := 0
		var last *Failure
		for i := 0; i < times; i++ {
			writeJSON(curPath, c)
			f, rec := exec(c)
			st.Evaluations++
			if f != nil {
				hits++
				last = f
				if len(f.Trace) == 0 {
					f.Trace = rec.trace
				}
			}
		}
		if last != nil {
			st.Failures = hits
			writeJSON(failPath, failRecord{Property: prop, Case: c, Failure: last, Kind: "violation"})
			fmt.Printf("REPLAY property=%s hits=%d/%d sig=%s msg=%s\n", prop, hits, times, last.Sig, last.Msg)
			if k := matchKnown(ks, last); k != nil {
				st.KnownWitnessHit = append(st.KnownWitnessHit, k.ID)
			}
			t.Fail()
		} else {
			fmt.Printf("REPLAY property=%s hits=0/%d\n", prop, times)
		}
		return
	}

	maxSamples := 4
	rapid.Check(t, func(rt *rapid.T) {
		c := gen.Draw(rt, "case")
		if !st.frozen {
			writeJSON(curPath, c)
		}
		f, rec := exec(c)
		st.mu.Lock()
		if !st.frozen {
			st.Evaluations++
			for k := range rec.classes {
				st.Classes[k]++
			}
			if rec.nontrivial {
				st.ntSet[hashOf(c)] = struct{}{}
				if len(st.Samples) < maxSamples && (st.Evaluations%7 == 1 || len(st.Samples) == 0) {
					st.Samples = append(st.Samples, c)
				}
			}
		}
		st.mu.Unlock()
		if f == nil {
			return
		}
		if k := matchKnown(ks, f); k != nil {
			st.mu.Lock()
			if !st.frozen {
				st.Excluded[k.ID]++
				if !st.knownSeen[k.ID] {
					st.knownSeen[k.ID] = true
					st.KnownHit = append(st.KnownHit, k.ID)
				}
			}
			st.mu.Unlock()
			return
		}
		if len(f.Trace) == 0 {
			f.Trace = rec.trace
		}
		st.mu.Lock()
		st.frozen = true
		st.Failures = 1
		st.mu.Unlock()
		// every failing execution overwrites the record; rapid re-runs the minimal case last
		writeJSON(failPath, failRecord{Property: prop, Case: c, Failure: f, Kind: "violation"})
		rt.Fatalf("property %s violated [%s]: %s", prop, f.Sig, f.Msg)
	})
}
