package codec

import (
	"encoding/json"
	"fmt"
	"net"
	"sort"
	"strings"
	"testing"

	"pgregory.net/rapid"
	fakeGalaxyCli "tkestack.io/galaxy/pkg/ipam/client/clientset/versioned/fake"
	"tkestack.io/galaxy/pkg/ipam/floatingip"
	"tkestack.io/galaxy/pkg/utils/nets"
	"verifharness/ipamsim"
	"verifharness/vcore"
)

// ---- C20: floating-IP configuration and IP ranges decode, validate and round-trip ----

type poolSpec struct {
	Text        string      `json:"text"`         // the JSON object of this pool as it appears in the configuration
	Ranges      [][2]uint32 `json:"ranges"`       // model: the ranges the text was rendered from (before mutation)
	NodeSubnets []string    `json:"node_subnets"` // expected decoded node subnets (masked, de-duplicated, in order)
	SubnetBase  uint32      `json:"subnet_base"`
	PrefixLen   int         `json:"prefix_len"`
	Gateway     uint32      `json:"gateway"`
	Vlan        uint16      `json:"vlan"`
	Mutation    string      `json:"mutation"` // "" = valid
}

type c20Case struct {
	Pools []poolSpec `json:"pools"`
	// range-string sub-case
	RangeA uint32 `json:"range_a"`
	RangeB uint32 `json:"range_b"`
	Probe  []uint32
}

func ipStr(x uint32) string { return nets.IntToIP(x).String() }

func renderRange(a, b uint32, forceTilde bool) string {
	if a == b && !forceTilde {
		return ipStr(a)
	}
	return ipStr(a) + "~" + ipStr(b)
}

func maskOf(l int) uint32 {
	if l == 0 {
		return 0
	}
	return ^uint32(0) << (32 - uint(l))
}

// genPool draws a valid pool (model first, then text) and optionally mutates the text into an invalid one.
func genPool(t *rapid.T, idx int, allowMut bool) poolSpec {
	l := rapid.IntRange(1, 32).Draw(t, "prefixLen")
	if rapid.IntRange(0, 3).Draw(t, "commonLen") > 0 {
		l = rapid.SampledFrom([]int{8, 16, 22, 24, 26, 28, 30, 31, 32}).Draw(t, "prefixLenCommon")
	}
	m := maskOf(l)
	var base uint32
	switch rapid.IntRange(0, 5).Draw(t, "baseKind") {
	case 0:
		base = 0 // contains 0.0.0.0
	case 1:
		base = ^uint32(0) & m // contains 255.255.255.255
	default:
		// distinct pools get distinct /8s most of the time so that pools do not overlap
		base = (uint32(10+idx*13)<<24 | rapid.Uint32().Draw(t, "baseLow")&0x00ffffff) & m
	}
	size := uint64(1) << (32 - uint(l))
	last := uint64(base) + size - 1
	// cut points: 2k distinct sorted offsets with gaps, drawn inside a window of the subnet
	k := rapid.IntRange(1, 4).Draw(t, "nRanges")
	var window uint64 = 64
	if size < window {
		window = size
	}
	var winStart uint64
	switch rapid.IntRange(0, 2).Draw(t, "winPos") {
	case 0:
		winStart = uint64(base)
	case 1:
		winStart = last - window + 1
	default:
		winStart = uint64(base) + rapid.Uint64Range(0, size-window).Draw(t, "winOff")
	}
	var ranges [][2]uint32
	pos := winStart
	for i := 0; i < k; i++ {
		if pos > winStart+window-1 {
			break
		}
		gap := rapid.Uint64Range(0, 3).Draw(t, "skip")
		a := pos + gap
		if a > winStart+window-1 {
			break
		}
		ln := rapid.Uint64Range(0, 6).Draw(t, "len")
		b := a + ln
		if b > winStart+window-1 {
			b = winStart + window - 1
		}
		ranges = append(ranges, [2]uint32{uint32(a), uint32(b)})
		pos = b + 2 // gap >= 2 between neighbours (not mergeable)
	}
	if len(ranges) == 0 {
		ranges = [][2]uint32{{uint32(winStart), uint32(winStart)}}
	}
	gw := uint32(uint64(base) + rapid.Uint64Range(0, size-1).Draw(t, "gwOff"))
	if rapid.Bool().Draw(t, "gwFirst") {
		gw = base + uint32(minU64(1, size-1))
	}
	vlan := uint16(rapid.IntRange(0, 4094).Draw(t, "vlan"))
	if rapid.Bool().Draw(t, "vlan0") {
		vlan = 0
	}
	// node subnets
	nn := rapid.IntRange(1, 3).Draw(t, "nNodeSubnets")
	useRoutable := rapid.IntRange(0, 3).Draw(t, "useRoutable") == 0
	var nsText []string
	var nsExpect []string
	seen := map[string]bool{}
	for i := 0; i < nn; i++ {
		nl := rapid.SampledFrom([]int{16, 24, 26, 32}).Draw(t, "nsLen")
		nb := uint32(172<<24) | uint32(rapid.IntRange(0, 3).Draw(t, "nsA"))<<16 | uint32(rapid.IntRange(0, 3).Draw(t, "nsB"))<<8 |
			uint32(rapid.IntRange(0, 255).Draw(t, "nsC"))
		txt := fmt.Sprintf("%s/%d", ipStr(nb), nl) // host bits may be set: the decoder masks them
		masked := fmt.Sprintf("%s/%d", ipStr(nb&maskOf(nl)), nl)
		nsText = append(nsText, txt)
		if useRoutable {
			nsExpect = []string{masked}
			break
		}
		if !seen[masked] {
			seen[masked] = true
			nsExpect = append(nsExpect, masked)
		}
		if i > 0 && rapid.IntRange(0, 3).Draw(t, "dupNs") == 0 {
			nsText = append(nsText, nsText[0])
		}
	}
	ps := poolSpec{Ranges: ranges, NodeSubnets: nsExpect, SubnetBase: base, PrefixLen: l, Gateway: gw, Vlan: vlan}
	// render
	ips := make([]string, len(ranges))
	for i, r := range ranges {
		ips[i] = renderRange(r[0], r[1], rapid.IntRange(0, 4).Draw(t, "tilde") == 0)
	}
	subnetIP := base
	if rapid.IntRange(0, 3).Draw(t, "subnetUnmasked") == 0 {
		subnetIP = gw // "10.0.70.1/24" style is accepted by the decoder (ParseCIDR)
	}
	fields := map[string]interface{}{
		"ips":     ips,
		"subnet":  fmt.Sprintf("%s/%d", ipStr(subnetIP), l),
		"gateway": ipStr(gw),
	}
	if vlan != 0 || rapid.Bool().Draw(t, "vlanExplicit") {
		fields["vlan"] = vlan
	}
	if useRoutable {
		fields["routableSubnet"] = nsText[0]
	} else {
		fields["nodeSubnets"] = nsText
	}
	if allowMut {
		muts := []string{"outside_hi", "outside_lo", "reversed", "badliteral", "nogateway", "nosubnet", "nonodesubnet",
			"badrangejson", "gateway_outside", "trailing_segment"}
		if len(ranges) >= 2 {
			muts = append(muts, "unsorted", "overlap", "adjacent", "unsorted", "overlap", "adjacent")
		}
		mu := rapid.SampledFrom(muts).Draw(t, "mutation")
		i := 0
		if len(ranges) > 1 {
			i = rapid.IntRange(0, len(ranges)-2).Draw(t, "mutIdx")
		}
		applied := true
		switch mu {
		case "outside_hi":
			if last == 0xffffffff {
				applied = false
			} else {
				r := ranges[len(ranges)-1]
				ips[len(ips)-1] = renderRange(r[0], uint32(last+1), true)
			}
		case "outside_lo":
			if base == 0 {
				applied = false
			} else {
				r := ranges[0]
				ips[0] = renderRange(base-1, r[1], true)
			}
		case "reversed":
			r := ranges[i]
			if r[0] == r[1] {
				if r[1] == 0xffffffff || uint64(r[1])+1 > last {
					applied = false
				} else {
					ips[i] = ipStr(r[1]+1) + "~" + ipStr(r[0])
				}
			} else {
				ips[i] = ipStr(r[1]) + "~" + ipStr(r[0])
			}
		case "trailing_segment":
			// a well-formed, in-place range followed by one more separator and anything (a typo of "~" for "," joins two ranges)
			r := ranges[i]
			tail := rapid.SampledFrom([]string{"", "garbage", ipStr(r[1]), ipStr(r[1] + 1), "~"}).Draw(t, "tail")
			ips[i] = ipStr(r[0]) + "~" + ipStr(r[1]) + "~" + tail
		case "badliteral":
			ips[i] = rapid.SampledFrom([]string{"1.2.3", "abc", "", "1.2.3.4-1.2.3.5", "1.2.3.256", "1.2.3.4~", "~1.2.3.4",
				"1.2.3.4~~1.2.3.5", " ", "1.2.3.4/24", "1.2.3.4,1.2.3.5"}).Draw(t, "badLit")
		case "gateway_outside":
			// the gateway lies in a neighbouring network of the same size; whether this is accepted is left open, but an
			// accepted pool must still have its ranges inside the pool's own subnet and must round-trip
			if l < 2 || l > 30 {
				applied = false
			} else {
				other := base ^ (uint32(1) << (32 - uint(l)))
				fields["gateway"] = ipStr(other + 1)
			}
		case "nogateway":
			delete(fields, "gateway")
		case "nosubnet":
			delete(fields, "subnet")
		case "nonodesubnet":
			delete(fields, "routableSubnet")
			delete(fields, "nodeSubnets")
		case "badrangejson":
			fields["ips"] = rapid.SampledFrom([]interface{}{"10.0.0.1", 7, map[string]int{"a": 1}, []interface{}{1, 2}}).Draw(t, "badIps")
		case "unsorted":
			ips[i], ips[i+1] = ips[i+1], ips[i]
		case "overlap":
			// next range starts inside (or at the end of) the previous one
			st := ranges[i][0] + uint32(rapid.Uint64Range(0, uint64(ranges[i][1]-ranges[i][0])).Draw(t, "ovOff"))
			ips[i+1] = renderRange(st, ranges[i+1][1], true)
		case "adjacent":
			ips[i+1] = renderRange(ranges[i][1]+1, ranges[i+1][1], true)
		}
		if applied {
			ps.Mutation = mu
		}
	}
	data, _ := json.Marshal(fields)
	ps.Text = string(data)
	return ps
}

func minU64(a, b uint64) uint64 {
	if a < b {
		return a
	}
	return b
}

func genC20() *rapid.Generator[c20Case] {
	return rapid.Custom(func(t *rapid.T) c20Case {
		n := rapid.IntRange(1, 3).Draw(t, "nPools")
		mutIdx := -1
		if rapid.IntRange(0, 2).Draw(t, "invalid") == 0 {
			mutIdx = rapid.IntRange(0, n-1).Draw(t, "mutPool")
		}
		c := c20Case{}
		for i := 0; i < n; i++ {
			c.Pools = append(c.Pools, genPool(t, i, i == mutIdx))
		}
		edge := []uint32{0, 1, 0xffffffff, 0xfffffffe, 0x0a000000, 0x0a0000ff, 0x7fffffff, 0x80000000}
		pick := func(label string) uint32 {
			if rapid.Bool().Draw(t, label+"Edge") {
				return rapid.SampledFrom(edge).Draw(t, label+"E")
			}
			return rapid.Uint32().Draw(t, label)
		}
		c.RangeA = pick("ra")
		if rapid.Bool().Draw(t, "near") {
			c.RangeB = c.RangeA + uint32(rapid.IntRange(-3, 40).Draw(t, "rd"))
		} else {
			c.RangeB = pick("rb")
		}
		for i := 0; i < 4; i++ {
			c.Probe = append(c.Probe, rapid.Uint32().Draw(t, "probe"))
		}
		return c
	})
}

func poolsOverlap(ps []poolSpec) bool {
	type iv struct{ a, b uint32 }
	var all []iv
	for _, p := range ps {
		for _, r := range p.Ranges {
			all = append(all, iv{r[0], r[1]})
		}
	}
	sort.Slice(all, func(i, j int) bool { return all[i].a < all[j].a })
	for i := 1; i < len(all); i++ {
		if all[i].a <= all[i-1].b {
			return true
		}
	}
	return false
}

func checkC20(c c20Case, r *vcore.Rec) *vcore.Failure {
	// (1) range strings
	if f := checkRangeString(c.RangeA, c.RangeB, r); f != nil {
		return f
	}
	// (2) configuration text
	texts := make([]string, len(c.Pools))
	invalid := ""
	boundary := false
	nRanges := 0
	for i, p := range c.Pools {
		texts[i] = p.Text
		if p.Mutation != "" {
			invalid = p.Mutation
		}
		nRanges += len(p.Ranges)
		for _, rg := range p.Ranges {
			if rg[0] == 0 || rg[1] == 0xffffffff || rg[0]&0xff == 0 || rg[1]&0xff == 0xff {
				boundary = true
			}
		}
	}
	confText := "[" + strings.Join(texts, ",") + "]"
	r.ClassIf(invalid != "", "invalid:"+invalid)
	r.ClassIf(invalid == "", "valid")
	r.ClassIf(boundary, "boundary_address")
	r.ClassIf(nRanges >= 2, "multi_range")
	if nRanges >= 2 || boundary || invalid != "" {
		r.NonTrivial()
	}
	var pools []*floatingip.FloatingIPPool
	err := json.Unmarshal([]byte(confText), &pools)
	if invalid == "gateway_outside" {
		if err != nil {
			return nil
		}
		for _, p := range pools {
			for _, rg := range p.IPRanges {
				if !p.IPNet().Contains(rg.First) || !p.IPNet().Contains(rg.Last) {
					return vcore.Failf("c20:accepted_outside_pool_subnet", "accepted configuration has range %s outside the pool's subnet %s: %s",
						rg.String(), p.IPNet(), confText)
				}
			}
			data, merr := json.Marshal(p)
			var back floatingip.FloatingIPPool
			if merr != nil || json.Unmarshal(data, &back) != nil {
				return vcore.Failf("c20:roundtrip", "accepted pool does not round-trip: %s", data)
			}
		}
		return nil
	}
	if invalid != "" {
		if err == nil {
			return vcore.Failf("c20:accepted_invalid:"+invalid, "configuration with mutation %q was accepted: %s", invalid, confText)
		}
		return nil
	}
	if err != nil {
		return vcore.Failf("c20:rejected_valid", "valid configuration rejected: %v: %s", err, confText)
	}
	if len(pools) != len(c.Pools) {
		return vcore.Failf("c20:pool_count", "decoded %d pools, want %d", len(pools), len(c.Pools))
	}
	for i, p := range c.Pools {
		if f := checkDecodedPool(pools[i], p, c.Probe); f != nil {
			return f
		}
	}
	// (2b) the pool's own edit operations keep it an accepted pool: taking one address out and putting it back (in every range, at
	// its first, a middle and its last address) gives the same ranges again, and what is in between still round-trips
	for i, p := range c.Pools {
		if f := checkPoolEdits(pools[i], p, r); f != nil {
			return f
		}
	}
	// (3) the same texts through galaxy-ipam's configmap path: a text that decodes but is refused (a null entry in front of the
	// pools) is rejected on EVERY poll and changes nothing; the accepted text is applied afterwards
	if !poolsOverlap(c.Pools) && len(c.Pools) > 0 && (len(c.Probe) == 0 || c.Probe[0]%4 == 0) {
		if f := checkConfigMapPath(confText, c, r); f != nil {
			return f
		}
	}
	// enumeration through the real IPAM (only when pools are disjoint, as the documentation requires)
	if !poolsOverlap(c.Pools) {
		r.Class("enumerated_by_ipam")
		cli := fakeGalaxyCli.NewSimpleClientset()
		ipam := floatingip.NewCrdIPAM(cli, nil)
		if err := ipam.ConfigurePool(pools); err != nil {
			return vcore.Failf("c20:configure", "ConfigurePool failed on accepted configuration: %v", err)
		}
		alloc, unalloc, _ := floatingip.VerifTables(ipam)
		want := map[string]bool{}
		for _, p := range c.Pools {
			for _, rg := range p.Ranges {
				for x := uint64(rg[0]); x <= uint64(rg[1]); x++ {
					want[ipStr(uint32(x))] = true
				}
			}
		}
		if len(alloc) != 0 {
			return vcore.Failf("c20:enum", "fresh IPAM has %d allocated IPs", len(alloc))
		}
		if len(unalloc) != len(want) {
			return vcore.Failf("c20:enum", "IPAM enumerates %d IPs, model has %d (%s)", len(unalloc), len(want), confText)
		}
		for ip := range want {
			if _, ok := unalloc[ip]; !ok {
				return vcore.Failf("c20:enum", "IP %s of the configuration is not enumerated by IPAM", ip)
			}
		}
	}
	return nil
}

func rangesText(p *floatingip.FloatingIPPool) string {
	var out []string
	for _, rg := range p.IPRanges {
		out = append(out, rg.String())
	}
	return strings.Join(out, ",")
}

func checkPoolEdits(pool *floatingip.FloatingIPPool, spec poolSpec, r *vcore.Rec) *vcore.Failure {
	if len(spec.Ranges) == 0 || len(spec.Ranges) > 6 {
		return nil
	}
	orig := rangesText(pool)
	for ri, rg := range spec.Ranges {
		for _, x := range []uint32{rg[0], rg[0] + (rg[1]-rg[0])/2, rg[1]} {
			ip := nets.IntToIP(x)
			if !pool.RemoveIP(ip) {
				return vcore.Failf("c20:edit_remove", "RemoveIP(%s) refused an address of range %d of the accepted pool %s", ip, ri, orig)
			}
			if pool.Contains(ip) {
				return vcore.Failf("c20:edit_remove", "after RemoveIP(%s) the pool still contains it (ranges %s)", ip, rangesText(pool))
			}
			data, err := json.Marshal(pool)
			var back floatingip.FloatingIPPool
			if err == nil && len(pool.IPRanges) > 0 {
				if uerr := json.Unmarshal(data, &back); uerr != nil {
					return vcore.Failf("c20:edit_roundtrip", "the pool after RemoveIP(%s) encodes to %s which is rejected: %v", ip, data, uerr)
				}
			}
			if !pool.InsertIP(ip) {
				return vcore.Failf("c20:edit_insert", "InsertIP(%s) refused an address that was just removed (ranges %s)", ip, rangesText(pool))
			}
			if got := rangesText(pool); got != orig {
				return vcore.Failf("c20:edit_not_restored", "RemoveIP(%s) then InsertIP(%s): ranges are %s, the accepted pool had %s (sorted, disjoint, not mergeable)",
					ip, ip, got, orig)
			}
		}
	}
	r.Class("pool_edited_and_restored")
	return nil
}

var c20BaseTopo = ipamsim.Topo{
	Pools: []ipamsim.PoolT{{NodeSubnets: []string{"10.49.27.0/24"}, Subnet: "172.31.250.0/24", Gateway: "172.31.250.1", Ranges: [][2]uint32{{0xac1ffa02, 0xac1ffa05}}}},
	Nodes: []ipamsim.NodeT{{Name: "n0", IP: "10.49.27.3"}},
}

func tableIPs(w *ipamsim.World) string {
	alloc, unalloc := w.Tables()
	var ips []string
	for ip := range alloc {
		ips = append(ips, ip)
	}
	for ip := range unalloc {
		ips = append(ips, ip)
	}
	sort.Strings(ips)
	return strings.Join(ips, ",")
}

func checkConfigMapPath(confText string, c c20Case, r *vcore.Rec) *vcore.Failure {
	x, err := ipamsim.NewExec(&ipamsim.Case{Topo: c20BaseTopo}, &vcore.Rec{})
	if err != nil {
		return vcore.Failf("harness:init", "world construction failed: %v", err)
	}
	w := x.W
	before := tableIPs(w)
	refused := "[null," + confText[1:]
	w.SetConfig(refused)
	for poll := 1; poll <= 2; poll++ {
		updated, err, _ := w.Reload()
		if err == nil {
			return vcore.Failf("c20:refused_text_reported_loaded", "poll %d of a configmap text that galaxy-ipam refuses (null entry) answered updated=%v without an error: %s",
				poll, updated, refused)
		}
		if now := tableIPs(w); now != before {
			return vcore.Failf("c20:refused_text_changed_state", "poll %d of a refused configmap text changed the configured IPs from [%s] to [%s]", poll, before, now)
		}
	}
	w.SetConfig(confText)
	if _, err, _ := w.Reload(); err != nil {
		return vcore.Failf("c20:configure", "the accepted configuration was not applied through the configmap path: %v: %s", err, confText)
	}
	want := map[string]bool{}
	for _, p := range c.Pools {
		for _, rg := range p.Ranges {
			for x := uint64(rg[0]); x <= uint64(rg[1]); x++ {
				want[ipStr(uint32(x))] = true
			}
		}
	}
	alloc, unalloc := w.Tables()
	if len(alloc)+len(unalloc) != len(want) {
		return vcore.Failf("c20:enum", "after loading through the configmap path IPAM holds %d IPs, the configuration has %d (%s)", len(alloc)+len(unalloc), len(want), confText)
	}
	r.Class("configmap_path")
	return nil
}

func checkRangeString(a, b uint32, r *vcore.Rec) *vcore.Failure {
	s := ipStr(a) + "~" + ipStr(b)
	got := nets.ParseIPRange(s)
	if a > b {
		r.Class("range_first_gt_last")
		if got != nil {
			return vcore.Failf("c20:range_reversed_accepted", "ParseIPRange(%q) accepted a reversed range", s)
		}
		return nil
	}
	if got == nil {
		return vcore.Failf("c20:range_rejected", "ParseIPRange(%q) rejected a valid range", s)
	}
	for _, tail := range []string{"~", "~" + ipStr(b), "~x"} {
		if extra := nets.ParseIPRange(s + tail); extra != nil {
			return vcore.Failf("c20:range_trailing_accepted", "ParseIPRange(%q) accepted a string with a trailing segment as %s", s+tail, extra.String())
		}
	}
	if nets.IPToInt(got.First) != a || nets.IPToInt(got.Last) != b {
		return vcore.Failf("c20:range_value", "ParseIPRange(%q) = %v", s, got)
	}
	full := a == 0 && b == 0xffffffff
	if !full && got.Size() != b-a+1 {
		return vcore.Failf("c20:range_size", "%q Size()=%d want %d", s, got.Size(), b-a+1)
	}
	for _, x := range []uint32{a, b, a - 1, b + 1, a + (b-a)/2} {
		want := x >= a && x <= b
		if got.Contains(nets.IntToIP(x)) != want {
			return vcore.Failf("c20:range_contains", "%q Contains(%s)=%v want %v", s, ipStr(x), !want, want)
		}
	}
	// round trips
	back := nets.ParseIPRange(got.String())
	if back == nil || !back.First.Equal(got.First) || !back.Last.Equal(got.Last) {
		return vcore.Failf("c20:range_roundtrip", "ParseIPRange(String(%q)) = %v", s, back)
	}
	if a == b && strings.Contains(got.String(), "~") {
		return vcore.Failf("c20:range_single_form", "single-address range renders as %q", got.String())
	}
	data, err := json.Marshal(got)
	if err != nil {
		return vcore.Failf("c20:range_json", "marshal %q: %v", s, err)
	}
	var back2 nets.IPRange
	if err := json.Unmarshal(data, &back2); err != nil || !back2.First.Equal(got.First) || !back2.Last.Equal(got.Last) {
		return vcore.Failf("c20:range_json", "json round trip of %q: %s -> %v (%v)", s, data, back2, err)
	}
	return nil
}

func checkDecodedPool(got *floatingip.FloatingIPPool, p poolSpec, probes []uint32) *vcore.Failure {
	if len(got.IPRanges) != len(p.Ranges) {
		return vcore.Failf("c20:ranges", "decoded %d ranges want %d: %s", len(got.IPRanges), len(p.Ranges), p.Text)
	}
	var total uint64
	subnet := &net.IPNet{IP: nets.IntToIP(p.SubnetBase), Mask: net.CIDRMask(p.PrefixLen, 32)}
	for i, rg := range p.Ranges {
		g := got.IPRanges[i]
		if nets.IPToInt(g.First) != rg[0] || nets.IPToInt(g.Last) != rg[1] {
			return vcore.Failf("c20:ranges", "range %d decoded as %s want %s~%s", i, g.String(), ipStr(rg[0]), ipStr(rg[1]))
		}
		if !subnet.Contains(g.First) || !subnet.Contains(g.Last) {
			return vcore.Failf("c20:outside_subnet", "accepted range %s outside %s", g.String(), subnet)
		}
		if i > 0 {
			prev := nets.IPToInt(got.IPRanges[i-1].Last)
			if uint64(nets.IPToInt(g.First)) < uint64(prev)+2 {
				return vcore.Failf("c20:order", "accepted ranges %s, %s unsorted/overlapping/mergeable", got.IPRanges[i-1], g)
			}
		}
		total += uint64(rg[1]) - uint64(rg[0]) + 1
	}
	if uint64(got.Size()) != total {
		return vcore.Failf("c20:size", "Size()=%d want %d: %s", got.Size(), total, p.Text)
	}
	inModel := func(x uint32) bool {
		for _, rg := range p.Ranges {
			if x >= rg[0] && x <= rg[1] {
				return true
			}
		}
		return false
	}
	var pts []uint32
	for _, rg := range p.Ranges {
		pts = append(pts, rg[0], rg[1], rg[0]-1, rg[1]+1, rg[0]+(rg[1]-rg[0])/2)
	}
	pts = append(pts, probes...)
	for _, x := range pts {
		if got.Contains(nets.IntToIP(x)) != inModel(x) {
			return vcore.Failf("c20:contains", "Contains(%s)=%v want %v: %s", ipStr(x), !inModel(x), inModel(x), p.Text)
		}
	}
	if !got.Gateway.Equal(nets.IntToIP(p.Gateway)) {
		return vcore.Failf("c20:gateway", "gateway %s want %s", got.Gateway, ipStr(p.Gateway))
	}
	if ones, bits := got.Mask.Size(); ones != p.PrefixLen || bits != 32 {
		return vcore.Failf("c20:mask", "mask %s want /%d", got.Mask, p.PrefixLen)
	}
	if got.Vlan != p.Vlan {
		return vcore.Failf("c20:vlan", "vlan %d want %d", got.Vlan, p.Vlan)
	}
	var ns []string
	for _, n := range got.NodeSubnets {
		ns = append(ns, n.String())
	}
	if strings.Join(ns, ",") != strings.Join(p.NodeSubnets, ",") {
		return vcore.Failf("c20:nodesubnets", "node subnets %v want %v: %s", ns, p.NodeSubnets, p.Text)
	}
	if got.IPNet().String() != subnet.String() {
		return vcore.Failf("c20:ipnet", "IPNet() %s want %s", got.IPNet(), subnet)
	}
	// encode / decode round trip
	data, err := json.Marshal(got)
	if err != nil {
		return vcore.Failf("c20:marshal", "marshal: %v", err)
	}
	var back floatingip.FloatingIPPool
	if err := json.Unmarshal(data, &back); err != nil {
		return vcore.Failf("c20:roundtrip", "re-decode of %s failed: %v", data, err)
	}
	if len(back.IPRanges) != len(got.IPRanges) || !back.Gateway.Equal(got.Gateway) || back.Mask.String() != got.Mask.String() ||
		back.Vlan != got.Vlan || len(back.NodeSubnets) != len(got.NodeSubnets) {
		return vcore.Failf("c20:roundtrip", "round trip differs: %s vs %s", data, p.Text)
	}
	for i := range back.IPRanges {
		if !back.IPRanges[i].First.Equal(got.IPRanges[i].First) || !back.IPRanges[i].Last.Equal(got.IPRanges[i].Last) {
			return vcore.Failf("c20:roundtrip", "round trip range %d differs: %s", i, data)
		}
	}
	for i := range back.NodeSubnets {
		if back.NodeSubnets[i].String() != got.NodeSubnets[i].String() {
			return vcore.Failf("c20:roundtrip", "round trip node subnet %d differs: %s", i, data)
		}
	}
	return nil
}

func TestC20(t *testing.T) {
	vcore.HangIsViolation = true
	vcore.Run(t, "C20", genC20(), checkC20)
}
