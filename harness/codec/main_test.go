package codec

import (
	"os"
	"testing"

	"verifharness/vcore"
)

func TestMain(m *testing.M) {
	vcore.QuietKlog()
	os.Exit(m.Run())
}
