module verifharness

go 1.23

toolchain go1.23.5

require (
	github.com/containernetworking/cni v0.8.0
	github.com/emicklei/go-restful v2.10.0+incompatible
	github.com/prometheus/client_golang v1.14.0
	google.golang.org/grpc v1.51.0
	k8s.io/api v0.24.3
	k8s.io/apiextensions-apiserver v0.24.3
	k8s.io/apimachinery v0.24.3
	k8s.io/client-go v0.24.3
	k8s.io/cri-api v0.27.4
	k8s.io/klog v1.0.0
	k8s.io/utils v0.0.0-20220210201930-3a6ce19ff2f9
	pgregory.net/rapid v1.3.0
	tkestack.io/galaxy v0.0.0
)

require (
	github.com/beorn7/perks v1.0.1 // indirect
	github.com/cespare/xxhash/v2 v2.1.2 // indirect
	github.com/containernetworking/plugins v0.8.7 // indirect
	github.com/coreos/go-iptables v0.4.5 // indirect
	github.com/davecgh/go-spew v1.1.1 // indirect
	github.com/dbdd4us/qcloudapi-sdk-go v0.0.0-20190530123522-c8d9381de48c // indirect
	github.com/docker/distribution v2.7.1+incompatible // indirect
	github.com/docker/engine-api v0.4.0 // indirect
	github.com/docker/go-connections v0.4.0 // indirect
	github.com/docker/go-units v0.5.0 // indirect
	github.com/emicklei/go-restful/v3 v3.9.0 // indirect
	github.com/evanphx/json-patch v4.12.0+incompatible // indirect
	github.com/go-logr/logr v1.2.3 // indirect
	github.com/go-openapi/jsonpointer v0.19.5 // indirect
	github.com/go-openapi/jsonreference v0.20.0 // indirect
	github.com/go-openapi/swag v0.19.14 // indirect
	github.com/gogo/protobuf v1.3.2 // indirect
	github.com/golang/protobuf v1.5.3 // indirect
	github.com/google/gnostic v0.5.7-v3refs // indirect
	github.com/google/go-cmp v0.5.9 // indirect
	github.com/google/gofuzz v1.1.0 // indirect
	github.com/imdario/mergo v0.3.6 // indirect
	github.com/josharian/intern v1.0.0 // indirect
	github.com/json-iterator/go v1.1.12 // indirect
	github.com/mailru/easyjson v0.7.6 // indirect
	github.com/matttproud/golang_protobuf_extensions v1.0.2 // indirect
	github.com/modern-go/concurrent v0.0.0-20180306012644-bacd9c7ef1dd // indirect
	github.com/modern-go/reflect2 v1.0.2 // indirect
	github.com/munnerz/goautoneg v0.0.0-20191010083416-a7dc8b61c822 // indirect
	github.com/opencontainers/go-digest v1.0.0 // indirect
	github.com/pkg/errors v0.9.1 // indirect
	github.com/prometheus/client_model v0.3.0 // indirect
	github.com/prometheus/common v0.37.0 // indirect
	github.com/prometheus/procfs v0.8.0 // indirect
	github.com/safchain/ethtool v0.0.0-20190326074333-42ed695e3de8 // indirect
	github.com/spf13/pflag v1.0.5 // indirect
	github.com/vishvananda/netlink v1.0.0 // indirect
	github.com/vishvananda/netns v0.0.0-20190625233234-7109fa855b0f // indirect
	golang.org/x/net v0.8.0 // indirect
	golang.org/x/oauth2 v0.0.0-20220223155221-ee480838109b // indirect
	golang.org/x/sys v0.6.0 // indirect
	golang.org/x/term v0.6.0 // indirect
	golang.org/x/text v0.8.0 // indirect
	golang.org/x/time v0.0.0-20220210224613-90d013bbcef8 // indirect
	google.golang.org/genproto v0.0.0-20220502173005-c8bf987b8c21 // indirect
	google.golang.org/protobuf v1.28.1 // indirect
	gopkg.in/inf.v0 v0.9.1 // indirect
	gopkg.in/yaml.v2 v2.4.0 // indirect
	gopkg.in/yaml.v3 v3.0.1 // indirect
	k8s.io/klog/v2 v2.80.1 // indirect
	k8s.io/kube-openapi v0.0.0-20221012153701-172d655c2280 // indirect
	sigs.k8s.io/json v0.0.0-20220713155537-f223a00ba0e2 // indirect
	sigs.k8s.io/structured-merge-diff/v4 v4.2.3 // indirect
	sigs.k8s.io/yaml v1.3.0 // indirect
)

replace tkestack.io/galaxy => /repo
