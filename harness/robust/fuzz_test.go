package robust

import (
	"testing"
	"time"

	"verifharness/vcore"
)

// Native fuzz targets (go test -fuzz) for the byte-level surfaces of C18. The oracle is inside the target: the shared
// check functions plus a watchdog; a panic in the code under test fails the target by itself.

func watchdog(t *testing.T, name string, f func() *vcore.Failure) {
	done := make(chan *vcore.Failure, 1)
	go func() {
		done <- vcore.Guard("C18", f)
	}()
	select {
	case fl := <-done:
		if fl != nil {
			t.Fatalf("C18 violated [%s]: %s", fl.Sig, fl.Msg)
		}
	case <-time.After(30 * time.Second):
		t.Fatalf("C18 violated [hang]: %s did not answer within 30s", name)
	}
}

func FuzzC18Config(f *testing.F) {
	for _, s := range configSeeds {
		f.Add(s)
	}
	for _, s := range hostileStrings {
		f.Add(s)
	}
	f.Fuzz(func(t *testing.T, text string) {
		watchdog(t, "config reload", func() *vcore.Failure { return checkConfig(text, &vcore.Rec{}) })
	})
}

func FuzzC18PodArgs(f *testing.F) {
	for _, s := range argsSeeds {
		f.Add(s, "s0-0", "immutable", uint8(0))
	}
	for _, s := range hostileStrings {
		f.Add(s, "x", "", uint8(3))
	}
	opsets := [][]string{{"filter", "bind", "update", "delete", "unbind"}, {"update", "syncips", "resync"}, {"preempt", "filter", "finish", "unbind"},
		{"bind", "resync", "delete", "unbind", "syncips"}}
	f.Fuzz(func(t *testing.T, args, name, policy string, k uint8) {
		ps := &podSpec{Ns: "ns0", Name: name, Args: args, Policy: policy, Phase: []string{"Running", "Pending", "Failed", ""}[k%4], UID: "u1",
			Owners: [][2]string{{[]string{"StatefulSet", "ReplicaSet", "Foo", ""}[(k/4)%4], "s0"}}}
		watchdog(t, "pod request", func() *vcore.Failure { return checkPod(ps, opsets[(k/16)%4], &vcore.Rec{}) })
	})
}

func FuzzC18HTTP(f *testing.F) {
	f.Add(uint8(0), "keyword=s0", "")
	f.Add(uint8(1), "", `{"ips":[{"ip":"10.0.70.2","namespace":"ns0","appName":"s0","podName":"s0-0","appType":"statefulset"}]}`)
	f.Add(uint8(2), "", `{"name":"p0","size":2,"preAllocateIP":true}`)
	f.Add(uint8(3), "p0", "")
	f.Add(uint8(0), "page=99999999999&size=-1&sort=ip%20desc", "")
	methods := []string{"GET /v1/ip", "POST /v1/ip", "POST /v1/pool", "GET /v1/pool/", "DELETE /v1/pool/"}
	f.Fuzz(func(t *testing.T, m uint8, query, body string) {
		watchdog(t, "http request", func() *vcore.Failure { return checkHTTP(methods[int(m)%len(methods)], query, body, &vcore.Rec{}) })
	})
}

func FuzzC18CNI(f *testing.F) {
	f.Add([]byte(`{"env":{"CNI_COMMAND":"ADD","CNI_CONTAINERID":"cid","CNI_NETNS":"/proc/1/ns/net","CNI_IFNAME":"eth0","CNI_PATH":"/nonexistent","CNI_ARGS":"K8S_POD_NAMESPACE=ns1;K8S_POD_NAME=pod1"},"config":"e30="}`), "neta,netb")
	f.Add([]byte(`{"env":{"CNI_COMMAND":"DEL","CNI_CONTAINERID":"cid","CNI_NETNS":"","CNI_IFNAME":"eth0","CNI_PATH":"","CNI_ARGS":"K8S_POD_NAMESPACE=ns1;K8S_POD_NAME=pod0"}}`), `[{"name":"neta","interface":"x"}]`)
	f.Add([]byte(`{}`), "a/b/c")
	f.Fuzz(func(t *testing.T, body []byte, netAnn string) {
		watchdog(t, "cni request", func() *vcore.Failure { return checkCNI(body, netAnn, &vcore.Rec{}) })
	})
}

func FuzzC18GalaxyConf(f *testing.F) {
	f.Add([]byte(`{"NetworkConf":[{"name":"a","type":"fake-a"}],"DefaultNetworks":["a"]}`))
	f.Add([]byte(`{"NetworkConf":[{"type":5}]}`))
	f.Add([]byte(`{"NetworkConf":[null]}`))
	f.Fuzz(func(t *testing.T, data []byte) {
		watchdog(t, "galaxy configuration", func() *vcore.Failure { return checkGalaxyConf(data, &vcore.Rec{}) })
	})
}

func FuzzC18Parsers(f *testing.F) {
	for _, s := range hostileStrings {
		f.Add(s)
	}
	for _, s := range []string{"10.0.70.2~10.0.70.9", "\"10.0.70.0/24\"", "ns/net@if", "a=b;c=d", `{"request_ip_range":[["1.1.1.1"]]}`} {
		f.Add(s)
	}
	f.Fuzz(func(t *testing.T, s string) {
		watchdog(t, "parsers", func() *vcore.Failure { return checkParsers(s, &vcore.Rec{}) })
	})
}
