// Package robust holds C18: no request, watched object or configuration can crash or wedge a daemon. Every surface is a
// rapid structured/byte generator here and a native fuzz target in fuzz_test.go; both share the same oracle functions.
package robust

import (
	"encoding/json"
	"fmt"
	"hash/fnv"
	"net"
	"os"
	"runtime"
	"strings"
	"testing"

	corev1 "k8s.io/api/core/v1"
	metav1 "k8s.io/apimachinery/pkg/apis/meta/v1"
	"k8s.io/apimachinery/pkg/types"
	"pgregory.net/rapid"
	"tkestack.io/galaxy/pkg/api/cniutil"
	galaxyapi "tkestack.io/galaxy/pkg/api/galaxy"
	"tkestack.io/galaxy/pkg/api/galaxy/constant"
	"tkestack.io/galaxy/pkg/api/k8s"
	"tkestack.io/galaxy/pkg/api/k8s/schedulerapi"
	"tkestack.io/galaxy/pkg/galaxy"
	"tkestack.io/galaxy/pkg/ipam/floatingip"
	"tkestack.io/galaxy/pkg/utils/ips"
	"tkestack.io/galaxy/pkg/utils/nets"
	"verifharness/galaxysim"
	"verifharness/ipamsim"
	"verifharness/netsim"
	"verifharness/nf"
	"verifharness/vcore"
)

var genv *galaxysim.Env

func TestMain(m *testing.M) {
	vcore.QuietKlog()
	os.Setenv("MY_NODE_NAME", netsim.LocalNode)
	if os.Getenv("VERIF_BIN_DIR") != "" {
		genv, _ = galaxysim.NewEnv()
	}
	code := m.Run()
	if genv != nil {
		genv.Close()
	}
	os.Exit(code)
}

type c18Case struct {
	Surface  string           `json:"surface"`
	Text     string           `json:"text,omitempty"`
	Pod      *podSpec         `json:"pod,omitempty"`
	Ops      []string         `json:"ops,omitempty"`
	Query    string           `json:"query,omitempty"`
	Method   string           `json:"method,omitempty"`
	Cluster  *netsim.ClusterT `json:"cluster,omitempty"`
	Cluster2 *netsim.ClusterT `json:"cluster2,omitempty"`
	// Fault: one API-server call made while the request is handled is answered with an error (surfaces config, pod, http): the
	// request may fail, but it must return and leave no lock held
	Fault *ipamsim.Fault `json:"fault,omitempty"`
}

// curFault is the fault of the case being checked (armed by the surfaces that build an IPAM world)
var curFault *ipamsim.Fault

func arm(x *ipamsim.Exec) {
	if curFault != nil {
		x.W.ArmFault(curFault)
	}
}

func disarm(x *ipamsim.Exec, r *vcore.Rec) {
	if curFault != nil {
		r.ClassIf(x.W.FaultHit(), "api_call_failed_during_request")
		x.W.ArmFault(nil)
	}
}

type podSpec struct {
	Ns, Name   string
	Args       string // value of the args annotation ("<none>" = absent)
	Policy     string
	Pool       string
	Owners     [][2]string // kind, name
	Phase      string
	NodeName   string
	UID        string
	NilAnn     bool
	NoResource bool
	Twin       bool // the name shares a hashed-mutex slot with the deployment's lock key (see hashTwin)
}

// ---- generators ----

var hostileStrings = []string{"", " ", "null", "{}", "[]", "0", "\"\"", "255.255.255.255", "0.0.0.0", "~", "1.2.3.4~", "~1.2.3.4", "/0", "/32",
	"1.2.3.4/33", "::1", "fe80::1~fe80::2", "255.255.255.250~255.255.255.255", "0.0.0.0~0.0.0.5", "10.0.70.3~10.0.70.2", "a~b", "-1", "999999999999",
	strings.Repeat("[", 200), strings.Repeat("{\"a\":", 50), "\x00", "💥", "1.2.3.4\n", "%s%d", "../../x"}

func genText(t *rapid.T, label string, seeds []string) string {
	switch rapid.IntRange(0, 5).Draw(t, label+"Kind") {
	case 0:
		return rapid.SampledFrom(hostileStrings).Draw(t, label+"Hostile")
	case 1:
		return string(rapid.SliceOfN(rapid.Byte(), 0, 60).Draw(t, label+"Bytes"))
	case 2, 3:
		// mutate a valid seed: splice, truncate, replace a token
		s := rapid.SampledFrom(seeds).Draw(t, label+"Seed")
		if len(s) == 0 {
			return s
		}
		switch rapid.IntRange(0, 4).Draw(t, label+"Mut") {
		case 0:
			return s[:rapid.IntRange(0, len(s)).Draw(t, label+"Cut")]
		case 1:
			i := rapid.IntRange(0, len(s)).Draw(t, label+"At")
			return s[:i] + rapid.SampledFrom(hostileStrings).Draw(t, label+"Ins") + s[i:]
		case 2:
			i := rapid.IntRange(0, len(s)-1).Draw(t, label+"At")
			return s[:i] + string(rapid.Byte().Draw(t, label+"B")) + s[i+1:]
		case 3:
			return strings.Replace(s, "10.0.70", rapid.SampledFrom([]string{"255.255.255", "0.0.0", "10.0.70", "999.1.1"}).Draw(t, label+"Rep"), -1)
		}
		return s + s
	default:
		return rapid.SampledFrom(seeds).Draw(t, label+"Valid")
	}
}

var configSeeds = []string{
	`[{"nodeSubnets":["10.49.27.0/24"],"ips":["10.0.70.2~10.0.70.241"],"subnet":"10.0.70.0/24","gateway":"10.0.70.1"}]`,
	`[{"routableSubnet":"10.49.27.0/24","ips":["10.0.70.2","10.0.70.4~10.0.70.6"],"subnet":"10.0.70.0/24","gateway":"10.0.70.1","vlan":3}]`,
	`[{"nodeSubnets":["10.49.27.0/24"],"ips":["255.255.255.250~255.255.255.255"],"subnet":"255.255.255.0/24","gateway":"255.255.255.1"}]`,
	`[{"nodeSubnets":["10.49.27.0/24"],"ips":["0.0.0.0~0.0.0.9"],"subnet":"0.0.0.0/24","gateway":"0.0.0.1"}]`,
	`[{"nodeSubnets":["10.49.27.0/24","10.49.28.0/26"],"ips":["10.0.0.0~10.0.255.255"],"subnet":"10.0.0.0/16","gateway":"10.0.0.1"}]`,
	`[]`, `[{}]`, `{"a":1}`,
}

var argsSeeds = []string{
	`{"request_ip_range":[["10.0.70.2~10.0.70.4"]]}`,
	`{"request_ip_range":[["10.0.70.2"],["10.0.70.3","10.0.70.5~10.0.70.6"]],"common":{"ipinfos":[{"ip":"10.0.70.2/24","vlan":2,"gateway":"10.0.70.1"}]}}`,
	`{"common":{"ipinfos":[{"ip":"10.0.70.3/24","vlan":0,"gateway":"10.0.70.1"}]}}`,
	`{"common":{"ipinfos":[{"ip":"10.0.70.200/24","vlan":0,"gateway":"10.0.70.1"}]}}`, // inside the pod subnet, outside the configured ranges
	`{"common":{"ipinfos":[{"ip":"192.168.1.5/24","vlan":0,"gateway":"192.168.1.1"},{"ip":"10.0.70.4/24","vlan":0,"gateway":"10.0.70.1"}]}}`,
	`{"request_ip_range":[["255.255.255.250~255.255.255.255"]]}`,
	`{"request_ip_range":[["0.0.0.0~0.0.255.255"]]}`,
	`{"request_ip_range":[[]]}`, `{"request_ip_range":[]}`, `{"common":{"ipinfos":[{"ip":null}]}}`, `{"common":{"ipinfos":[{}]}}`, `{"common":null}`,
}

// hashTwin returns a replica-set style pod name of deployment d0 in namespace ns0 whose pod lock key ("ns0_<name>") falls into the same
// slot of a 500000-slot FNV-1a hashed key mutex as the lock key of its deployment / pool (one pod name in 500000 does): harmless as
// long as pod locks and deployment locks live in tables of their own, a self-deadlock of Filter if they ever share one.
var hashTwins = map[string]string{}

func hashTwin(dpKey string) string {
	if n, ok := hashTwins[dpKey]; ok {
		return n
	}
	slot := func(s string) uint32 {
		h := fnv.New32a()
		h.Write([]byte(s))
		return h.Sum32() % 500000
	}
	want := slot(dpKey)
	const al = "bcdfghjklmnpqrstvwxz2456789"
	buf := []byte("ns0_d0-5d4f8b7c9-aaaaa")
	n := len(buf)
	for i := 0; ; i++ {
		v := i
		for k := 1; k <= 5; k++ {
			buf[n-k] = al[v%len(al)]
			v /= len(al)
		}
		if slot(string(buf)) == want {
			break
		}
	}
	hashTwins[dpKey] = string(buf[len("ns0_"):])
	return hashTwins[dpKey]
}

func genPodSpec(t *rapid.T) *podSpec {
	p := &podSpec{Ns: rapid.SampledFrom([]string{"ns0", "", "kube-system", "a_b"}).Draw(t, "ns"),
		Name:     rapid.SampledFrom([]string{"s0-0", "s0-1", "x", "x-", "-1", "a-b-c-999999999999999999999", "d0-5d4f8b7c9-abcde", "", "s0--2"}).Draw(t, "name"),
		Policy:   rapid.SampledFrom([]string{"", "immutable", "never", "IMMUTABLE", "x"}).Draw(t, "policy"),
		Pool:     rapid.SampledFrom([]string{"", "", "p0", "a_b", "pool__"}).Draw(t, "pool"),
		Phase:    rapid.SampledFrom([]string{"", "Pending", "Running", "Running", "Running", "Succeeded", "Failed", "Unknown"}).Draw(t, "phase"),
		NodeName: rapid.SampledFrom([]string{"", "n0", "n9"}).Draw(t, "node"),
		UID:      rapid.SampledFrom([]string{"", "u1", "u2"}).Draw(t, "uid"),
		NilAnn:   rapid.IntRange(0, 5).Draw(t, "nilAnn") == 0, NoResource: rapid.IntRange(0, 7).Draw(t, "noRes") == 0}
	if rapid.IntRange(0, 9).Draw(t, "hashTwin") == 0 {
		// a deployment pod whose name happens to share a lock-table slot with its deployment (or pool)
		p.Ns, p.Pool, p.NilAnn = "ns0", rapid.SampledFrom([]string{"", "p0"}).Draw(t, "twinPool"), false
		dpKey := "dp_ns0_d0_"
		if p.Pool != "" {
			dpKey = "pool__" + p.Pool + "_"
		}
		p.Name = hashTwin(dpKey)
		p.Twin = true
	}
	p.Args = "<none>"
	if rapid.IntRange(0, 3).Draw(t, "hasArgs") > 0 {
		p.Args = genText(t, "args", argsSeeds)
	}
	no := rapid.IntRange(0, 2).Draw(t, "nOwners")
	for i := 0; i < no; i++ {
		p.Owners = append(p.Owners, [2]string{rapid.SampledFrom([]string{"StatefulSet", "ReplicaSet", "Deployment", "Foo", "NotScalable", "", "x_y"}).Draw(t, "kind"),
			rapid.SampledFrom([]string{"s0", "d0-5d4f8b7c9", "norsdash", "", "-", "a-"}).Draw(t, "oname")})
	}
	if p.Twin {
		p.Owners = [][2]string{{"ReplicaSet", "d0-5d4f8b7c9"}}
	}
	return p
}

func (p *podSpec) object() *corev1.Pod {
	pod := &corev1.Pod{ObjectMeta: metav1.ObjectMeta{Name: p.Name, Namespace: p.Ns, UID: types.UID(p.UID)}}
	if !p.NilAnn {
		pod.Annotations = map[string]string{}
		if p.Args != "<none>" {
			pod.Annotations[constant.ExtendedCNIArgsAnnotation] = p.Args
		}
		if p.Policy != "" {
			pod.Annotations[constant.ReleasePolicyAnnotation] = p.Policy
		}
		if p.Pool != "" {
			pod.Annotations[constant.IPPoolAnnotation] = p.Pool
		}
	}
	for _, o := range p.Owners {
		pod.OwnerReferences = append(pod.OwnerReferences, metav1.OwnerReference{Kind: o[0], Name: o[1]})
	}
	if !p.NoResource {
		pod.Spec = ipamsim.EniPodSpec()
	}
	pod.Spec.NodeName = p.NodeName
	pod.Status.Phase = corev1.PodPhase(p.Phase)
	return pod
}

var surfaces = []string{"config", "pod", "pod", "http", "cni", "galaxyconf", "policy", "parsers", "parsers"}

func genC18() *rapid.Generator[c18Case] {
	return rapid.Custom(func(t *rapid.T) c18Case {
		c := c18Case{Surface: rapid.SampledFrom(surfaces).Draw(t, "surface")}
		if s := os.Getenv("VERIF_C18_SURFACE"); s != "" {
			c.Surface = s
		}
		switch c.Surface {
		case "config":
			c.Text = genText(t, "conf", configSeeds)
		case "pod":
			c.Pod = genPodSpec(t)
			c.Ops = rapid.SliceOfN(rapid.SampledFrom([]string{"filter", "bind", "preempt", "update", "delete", "unbind", "resync", "syncips", "finish"}), 1, 6).Draw(t, "ops")
		case "http":
			c.Method = rapid.SampledFrom([]string{"GET /v1/ip", "GET /v1/ip", "POST /v1/ip", "POST /v1/pool", "GET /v1/pool/", "DELETE /v1/pool/"}).Draw(t, "method")
			c.Query = genText(t, "query", []string{"keyword=s0", "appName=s0&namespace=ns0&appType=statefulset", "page=1&size=2&sort=ip+desc", "size=-1&page=99999999999",
				"poolName=p0&appType=", "sort=podname%20desc", "appType=NULL", "p0", "x/y", "%zz"})
			if rapid.IntRange(0, 3).Draw(t, "numericQuery") == 0 {
				// paging parameters at the boundaries of the integer types (products and sums that wrap)
				nums := []string{"0", "1", "-1", "99999", "100000", "2147483647", "2147483648", "4294967295", "4611686018427387904", "9223372036854775806",
					"9223372036854775807", "-9223372036854775808", "18446744073709551615", "1e3", ""}
				c.Query = "page=" + rapid.SampledFrom(nums).Draw(t, "pageNum")
				if rapid.Bool().Draw(t, "withSize") {
					c.Query += "&size=" + rapid.SampledFrom(nums).Draw(t, "sizeNum")
				}
				if rapid.IntRange(0, 2).Draw(t, "withSort") == 0 {
					c.Query += "&sort=" + rapid.SampledFrom([]string{"ip", "ip+desc", "podname", "policy+desc", "namespace+asc"}).Draw(t, "sortQ")
				}
			}
			c.Text = genText(t, "body", []string{`{"ips":[{"ip":"10.0.70.2","namespace":"ns0","appName":"s0","podName":"s0-0","appType":"statefulset"}]}`,
				`{"ips":[{"ip":"10.0.70"}]}`, `{"ips":null}`, `{"name":"p0","size":2,"preAllocateIP":true}`, `{"name":"p0","size":-5}`, `{"name":"","size":1}`,
				`{"name":"p0","size":99999999}`, `{"ips":[{"ip":"10.0.70.2","appType":"NULL"}]}`})
		case "cni":
			c.Text = genText(t, "cni", []string{
				`{"env":{"CNI_COMMAND":"ADD","CNI_CONTAINERID":"cid","CNI_NETNS":"/proc/1/ns/net","CNI_IFNAME":"eth0","CNI_PATH":"/nonexistent","CNI_ARGS":"K8S_POD_NAMESPACE=ns1;K8S_POD_NAME=pod0"},"config":"e30="}`,
				`{"env":{"CNI_COMMAND":"DEL","CNI_CONTAINERID":"cid","CNI_NETNS":"","CNI_IFNAME":"eth0","CNI_PATH":"","CNI_ARGS":"K8S_POD_NAMESPACE=ns1;K8S_POD_NAME=pod0"}}`,
				`{"env":{"CNI_COMMAND":"VERSION"}}`, `{"env":null}`, `{}`,
				`{"env":{"CNI_COMMAND":"ADD","CNI_CONTAINERID":"../../etc","CNI_NETNS":"x","CNI_IFNAME":"","CNI_PATH":"x","CNI_ARGS":"=;;=a=b;K8S_POD_NAMESPACE=ns1;K8S_POD_NAME=pod1"}}`})
			c.Query = genText(t, "netann", []string{"neta", "neta,netb", "ns/neta@eth1", `[{"name":"neta"}]`, `[{"name":"neta","interface":"x"},{"name":"nope"}]`, "a/b/c", "a@b@c", "UPPER",
				`[{"name":1}]`, `{"name":"neta"}`})
		case "galaxyconf":
			c.Text = genText(t, "gconf", []string{`{"NetworkConf":[{"name":"a","type":"fake-a"}],"DefaultNetworks":["a"]}`, `{"NetworkConf":[{"type":5}]}`,
				`{"NetworkConf":[{"name":7,"type":"x"}]}`, `{"NetworkConf":[{"name":"a","type":"x"},{"name":"a","type":"y"}]}`, `{"NetworkConf":[{}]}`,
				`{"NetworkConf":null,"DefaultNetworks":null}`, `{"NetworkConf":[null]}`})
		case "policy":
			cl := netsim.GenCluster(t, netsim.GenOpts{})
			cl2 := netsim.GenCluster(t, netsim.GenOpts{})
			cl2.Namespaces = cl.Namespaces
			c.Cluster, c.Cluster2 = &cl, &cl2
		case "parsers":
			c.Text = genText(t, "parse", []string{"10.0.70.2~10.0.70.9", "10.0.70.2", "\"10.0.70.0/24\"", "255.255.255.0", "ns/net@if", "a=b;c=d", "1.2.3.4/24"})
		}
		if (c.Surface == "config" || c.Surface == "pod" || c.Surface == "http") && rapid.IntRange(0, 2).Draw(t, "withFault") == 0 {
			c.Fault = &ipamsim.Fault{K: rapid.IntRange(1, 6).Draw(t, "faultK"), Mode: "error",
				Err: rapid.SampledFrom([]string{"internal", "timeout", "conflict", "notfound", "exists"}).Draw(t, "faultErr")}
		}
		return c
	})
}

// ---- oracles: the call returns (value or error), does not panic (vcore.Guard), does not hang (vcore watchdog), and the
// instance still answers a benign follow-up request ----

func baseWorld(confText string) (*ipamsim.Exec, *vcore.Failure) {
	topo := ipamsim.Topo{Pools: []ipamsim.PoolT{{NodeSubnets: []string{"10.49.27.0/24"}, Subnet: "10.0.70.0/24", Gateway: "10.0.70.1",
		Ranges: [][2]uint32{{0x0a004602, 0x0a004608}}}}, Nodes: []ipamsim.NodeT{{Name: "n0", IP: "10.49.27.3"}, {Name: "n1", IP: "10.49.27.4"}}}
	hc := &ipamsim.Case{Topo: topo, WLs: []ipamsim.WL{{Kind: "sts", Name: "s0", Replicas: 3}, {Kind: "dp", Name: "d0", Replicas: 2}},
		PoolObjs: []ipamsim.PoolObj{{Name: "p0", Size: 2}}}
	x, err := ipamsim.NewExec(hc, &vcore.Rec{})
	if err != nil {
		return nil, vcore.Failf("harness:init", "world construction failed: %v", err)
	}
	return x, nil
}

func followUp(x *ipamsim.Exec) *vcore.Failure {
	// a benign request on the same instance must still be answered (no lock left held) and the tables must be sane
	w := x.W
	if w.Pods["s0-2"] == nil {
		w.CreatePod(0, &x.C.WLs[0], "s0-2")
	}
	nodes, _, _, _ := w.Filter("s0-2", []string{"n0", "n1"})
	if len(nodes) > 0 && !w.Pods["s0-2"].Bound {
		// a write: blocks for ever if an earlier request left the IPAM cache lock read-held
		_, _ = w.Bind("s0-2", w.Pods["s0-2"].UID, nodes[0])
	}
	// a write that is always possible (re-keys nothing): takes the cache lock exclusively
	_, _ = w.Plugin.GetIpam().ReserveIP("c18-no-such-key", "c18-no-such-key", floatingip.Attr{})
	code, _ := x.HTTP("GET", "/v1/ip?size=3", nil)
	if code != 200 {
		return vcore.Failf("c18:followup", "benign GET /v1/ip after the request answers HTTP %d", code)
	}
	alloc, unalloc := w.Tables()
	for ip := range alloc {
		if _, both := unalloc[ip]; both {
			return vcore.Failf("c18:tables", "IP %s in both tables after the request", ip)
		}
	}
	return nil
}

func checkC18(c c18Case, r *vcore.Rec) *vcore.Failure {
	curFault = c.Fault
	switch c.Surface {
	case "config":
		return checkConfig(c.Text, r)
	case "pod":
		return checkPod(c.Pod, c.Ops, r)
	case "http":
		return checkHTTP(c.Method, c.Query, c.Text, r)
	case "cni":
		return checkCNI([]byte(c.Text), c.Query, r)
	case "galaxyconf":
		return checkGalaxyConf([]byte(c.Text), r)
	case "policy":
		return checkPolicy(c.Cluster, c.Cluster2, r)
	case "parsers":
		return checkParsers(c.Text, r)
	}
	return nil
}

func rangeTooLarge(text string) bool {
	// the property does not claim walks over more than 2^16 addresses: skip configurations/requests that contain one
	var pools []struct {
		IPs []string `json:"ips"`
	}
	var args struct {
		R [][]string `json:"request_ip_range"`
	}
	var all []string
	if json.Unmarshal([]byte(text), &pools) == nil {
		for _, p := range pools {
			all = append(all, p.IPs...)
		}
	}
	if json.Unmarshal([]byte(text), &args) == nil {
		for _, l := range args.R {
			all = append(all, l...)
		}
	}
	for _, s := range all {
		if rg := nets.ParseIPRange(s); rg != nil {
			if uint64(nets.IPToInt(rg.Last))-uint64(nets.IPToInt(rg.First)) > 1<<16 {
				return true
			}
		}
	}
	return false
}

func checkConfig(text string, r *vcore.Rec) *vcore.Failure {
	if rangeTooLarge(text) {
		r.Class("skipped_huge_range")
		return nil
	}
	var pools []*floatingip.FloatingIPPool
	if err := json.Unmarshal([]byte(text), &pools); err == nil {
		r.Class("config_decoded")
		r.NonTrivial()
	}
	x, f := baseWorld("")
	if f != nil {
		return f
	}
	x.W.SetConfig(text)
	arm(x)
	_, err, _ := x.W.Reload()
	disarm(x, r)
	r.ClassIf(err == nil, "config_loaded")
	p := x.W.CreatePod(0, &x.C.WLs[0], "s0-0")
	if nodes, _, ferr, _ := x.W.Filter(p.Name, []string{"n0", "n1"}); ferr == nil && len(nodes) > 0 {
		_, _ = x.W.Bind(p.Name, p.UID, nodes[0])
	}
	return followUp(x)
}

func checkPod(ps *podSpec, ops []string, r *vcore.Rec) *vcore.Failure {
	if ps.Args != "<none>" && rangeTooLarge(ps.Args) {
		r.Class("skipped_huge_range")
		return nil
	}
	if ps.Twin {
		r.Class("pod_name_shares_lock_slot_with_its_deployment")
	}
	x, f := baseWorld("")
	if f != nil {
		return f
	}
	w := x.W
	pod := ps.object()
	if _, err := constant.UnmarshalCniArgs(pod.Annotations[constant.ExtendedCNIArgsAnnotation]); err == nil {
		r.NonTrivial()
	}
	if ps.Name != "" && ps.Ns != "" {
		w.InjectPod(pod) // truth + lister, so that Bind/resync can find it
	}
	var nodes []corev1.Node
	for _, n := range w.Topo.Nodes {
		nodes = append(nodes, *n.Object())
	}
	// other traffic of the same daemon while the pod is handled: another pod's IP comes and goes (a writer on the IPAM cache lock).
	// A request that re-enters a read lock it already holds wedges the daemon as soon as such a writer queues in between.
	stop, done := make(chan struct{}), make(chan struct{})
	go func() {
		defer close(done)
		defer func() { _ = recover() }()
		ipam := w.Plugin.GetIpam()
		spare := net.ParseIP("10.0.70.8")
		for {
			select {
			case <-stop:
				return
			default:
			}
			if ipam.AllocateSpecificIP("sts_other_o0_o0-0", spare, floatingip.Attr{}) == nil {
				_ = ipam.Release("sts_other_o0_o0-0", spare)
			}
			runtime.Gosched()
		}
	}()
	arm(x)
	for _, op := range ops {
		r.Class("op_" + op)
		w.RunGuarded(func() {
			switch op {
			case "filter":
				_, _, _ = w.Plugin.Filter(pod.DeepCopy(), nodes)
			case "bind":
				if ps.NodeName != "" {
					return // the scheduler does not bind a pod that is already assigned to a node (the API server answers Conflict and Bind retries for 3s)
				}
				_ = w.Plugin.Bind(&schedulerapi.ExtenderBindingArgs{PodName: ps.Name, PodNamespace: ps.Ns, PodUID: types.UID(ps.UID), Node: "n0"})
			case "preempt":
				_ = w.Plugin.Preempt(&schedulerapi.ExtenderPreemptionArgs{Pod: pod.DeepCopy(), NodeNameToVictims: map[string]*schedulerapi.Victims{
					"n0": {Pods: []*corev1.Pod{pod.DeepCopy()}}, "nope": {}}, NodeNameToMetaVictims: map[string]*schedulerapi.MetaVictims{}})
			case "update":
				old := pod.DeepCopy()
				old.Status.Phase = corev1.PodPending
				_ = w.Plugin.UpdatePod(old, pod.DeepCopy())
			case "finish":
				fin := pod.DeepCopy()
				fin.Status.Phase = corev1.PodFailed
				_ = w.Plugin.UpdatePod(pod.DeepCopy(), fin)
			case "delete":
				_ = w.Plugin.DeletePod(pod.DeepCopy())
			case "unbind":
				w.CollectUnreleased()
				_, _, _ = w.RunUnbind(0)
			case "resync":
				_ = w.Plugin.VerifResyncPod()
			case "syncips":
				w.Plugin.VerifSyncPodIPs()
			}
		})
	}
	disarm(x, r)
	close(stop)
	<-done // (a wedged daemon never lets the writer finish: the case watchdog reports the hang)
	return followUp(x)
}

func checkHTTP(method, query, body string, r *vcore.Rec) *vcore.Failure {
	x, f := baseWorld("")
	if f != nil {
		return f
	}
	w := x.W
	// some state to list/release
	p := w.CreatePod(0, &x.C.WLs[0], "s0-0")
	if nodes, _, err, _ := w.Filter(p.Name, []string{"n0"}); err == nil && len(nodes) > 0 {
		_, _ = w.Bind(p.Name, p.UID, "n0")
	}
	w.DeletePod(p.Name)
	parts := strings.SplitN(method, " ", 2)
	url := parts[1]
	var code int
	arm(x)
	defer disarm(x, r)
	w.RunGuarded(func() {
		switch {
		case parts[0] == "GET" && url == "/v1/ip":
			code, _ = x.HTTP("GET", url+"?"+strings.ReplaceAll(query, " ", "%20"), nil)
		case parts[0] == "POST":
			code, _ = x.HTTP("POST", url, []byte(body))
		default:
			code, _ = x.HTTP(parts[0], url+strings.ReplaceAll(strings.ReplaceAll(query, " ", ""), "?", ""), nil)
		}
	})
	r.Class(fmt.Sprintf("http_%d", code))
	if code >= 200 && code < 300 {
		r.NonTrivial()
	}
	return followUp(x)
}

func checkCNI(body []byte, netAnn string, r *vcore.Rec) *vcore.Failure {
	if _, err := galaxyapi.CniRequestToPodRequest(body); err == nil {
		r.Class("cni_request_decoded")
		r.NonTrivial()
	}
	if genv == nil {
		var e error
		if genv, e = galaxysim.NewEnvNoPlugins(); e != nil {
			return vcore.Failf("harness:env", "%v", e)
		}
	}
	conf := galaxy.JsonConf{NetworkConf: []map[string]interface{}{{"name": "neta", "type": "nonexistent-a"}, {"name": "netb", "type": "nonexistent-b"}},
		DefaultNetworks: []string{"neta"}}
	pods := []*corev1.Pod{galaxysim.Pod("ns1", "pod0", nil, false), galaxysim.Pod("ns1", "pod1", map[string]string{constant.MultusCNIAnnotation: netAnn,
		constant.ExtendedCNIArgsAnnotation: `{"common":{"ipinfos":[{"ip":"10.0.70.2/24","vlan":2,"gateway":"10.0.70.1"}]}}`}, true)}
	d, err := galaxysim.NewDaemon(genv, conf, genv.Dir, pods)
	if err != nil {
		return vcore.Failf("harness:init", "daemon construction failed: %v", err)
	}
	d.AnyPod(pods[1]) // every pod name resolves (an unknown pod makes the daemon poll the API server for 5s)
	code, _ := d.RawRequest(body)
	r.Class(fmt.Sprintf("cni_http_%d", code))
	galaxysim.RemoveState("cid")
	// follow-up: a well-formed request for an unknown pod type answers (with an error) promptly
	code2, _ := d.Request("DEL", galaxysim.ContainerID("fu"), "ns1", "pod0", "eth0", "")
	if code2 != 200 {
		return vcore.Failf("c18:followup", "benign DEL after the request answers HTTP %d", code2)
	}
	return nil
}

func checkGalaxyConf(data []byte, r *vcore.Rec) *vcore.Failure {
	var conf galaxy.JsonConf
	if err := json.Unmarshal(data, &conf); err != nil {
		return nil
	}
	r.Class("galaxy_conf_decoded")
	r.NonTrivial()
	if genv == nil {
		var e error
		if genv, e = galaxysim.NewEnvNoPlugins(); e != nil {
			return vcore.Failf("harness:env", "%v", e)
		}
	}
	d, err := galaxysim.NewDaemon(genv, conf, genv.Dir, []*corev1.Pod{galaxysim.Pod("ns1", "pod0", nil, false)})
	if err != nil {
		return nil // rejected with an error: fine
	}
	cid := galaxysim.ContainerID("gc")
	_, _ = d.Request("ADD", cid, "ns1", "pod0", "eth0", "")
	_, _ = d.Request("DEL", cid, "ns1", "pod0", "eth0", "")
	galaxysim.RemoveState(cid)
	return nil
}

func checkPolicy(a, b *netsim.ClusterT, r *vcore.Rec) *vcore.Failure {
	sets := nf.NewIPSet()
	s := netsim.NewSim(nf.NewIPTables(sets), sets)
	s.Load(*a)
	s.PM.Run()
	if len(a.Policies) > 0 {
		r.NonTrivial()
	}
	// pod and policy events of a second, unrelated state against the policies of the first
	for _, p := range b.Pods {
		_ = s.PM.UpdatePod(p.ToK8s(), p.ToK8s())
	}
	for _, p := range a.Pods {
		_ = s.PM.DeletePod(p.ToK8s())
	}
	s.Load(*b)
	for _, p := range b.Policies {
		_ = s.PM.AddPolicy(p.ToK8s())
	}
	for _, p := range a.Policies {
		_ = s.PM.DeletePolicy(p.ToK8s())
	}
	for _, p := range b.Pods {
		s.PM.SyncPodIPInIPSet(p.ToK8s(), true)
		_ = s.PM.SyncPodChains(p.ToK8s())
	}
	s.PM.Run()
	return nil
}

func checkParsers(s string, r *vcore.Rec) *vcore.Failure {
	if rg := nets.ParseIPRange(s); rg != nil {
		r.NonTrivial()
		_ = rg.String()
		_ = rg.Size()
		_ = rg.Contains(net.ParseIP("10.0.70.3"))
		var back nets.IPRange
		data, _ := json.Marshal(rg)
		_ = json.Unmarshal(data, &back)
	}
	var n nets.IPNet
	if n.UnmarshalJSON([]byte(s)) == nil {
		r.NonTrivial()
		_ = n.String()
		_, _ = n.MarshalJSON()
	}
	var rj nets.IPRange
	_ = rj.UnmarshalJSON([]byte(s))
	if c, err := ips.ParseCIDR(s); err == nil {
		_ = c.String()
	}
	_ = ips.ParseIPv4Mask(s)
	if els, err := k8s.ParsePodNetworkAnnotation(s); err == nil {
		r.NonTrivial()
		for _, e := range els {
			if e != nil {
				_ = e.Name
			}
		}
	}
	if a, err := constant.UnmarshalCniArgs(s); err == nil && a != nil {
		_ = len(a.Common.IPInfos)
	}
	_, _ = cniutil.ParseCNIArgs(s)
	_, _ = galaxyapi.CniRequestToPodRequest([]byte(s))
	var p floatingip.FloatingIPPool
	if json.Unmarshal([]byte(s), &p) == nil {
		_ = p.String()
	}
	return nil
}

func TestC18(t *testing.T) {
	vcore.HangIsViolation = true
	vcore.CaseTimeout = 30e9
	vcore.Run(t, "C18", genC18(), checkC18)
}
