// Package racesim holds C19: shared state is free of data races under concurrent requests. Generated operation mixes are
// executed by free-running goroutines on shared instances of both daemons in a binary built with -race; the oracle is the
// Go race detector (reports are collected and attributed by the driver) plus runtime fatal errors.
package racesim

import (
	"context"
	"encoding/json"
	"fmt"
	"os"
	"path/filepath"
	"sync"
	"sync/atomic"
	"testing"
	"time"

	"github.com/prometheus/client_golang/prometheus"
	corev1 "k8s.io/api/core/v1"
	metav1 "k8s.io/apimachinery/pkg/apis/meta/v1"
	"k8s.io/apimachinery/pkg/types"
	"pgregory.net/rapid"
	"tkestack.io/galaxy/pkg/api/galaxy/constant"
	"tkestack.io/galaxy/pkg/api/k8s"
	"tkestack.io/galaxy/pkg/api/k8s/schedulerapi"
	"tkestack.io/galaxy/pkg/galaxy"
	"tkestack.io/galaxy/pkg/ipam/api"
	"tkestack.io/galaxy/pkg/network/portmapping"
	"verifharness/galaxysim"
	"verifharness/ipamsim"
	"verifharness/netsim"
	"verifharness/nf"
	"verifharness/vcore"
)

var genv *galaxysim.Env

func TestMain(m *testing.M) {
	vcore.QuietKlog()
	os.Setenv("MY_NODE_NAME", netsim.LocalNode)
	var err error
	if genv, err = galaxysim.NewEnv(); err != nil {
		fmt.Println("racesim:", err)
		os.Exit(2)
	}
	code := m.Run()
	genv.Close()
	os.Exit(code)
}

type rop struct {
	K string `json:"k"`
	A int    `json:"a"`
	B int    `json:"b"`
}

type c19Case struct {
	Target  string  `json:"target"` // ipam | galaxy
	Workers [][]rop `json:"workers"`
}

var ipamOps = []string{"filter", "bind", "schedule", "schedule", "update", "delete", "resync", "syncips", "list", "release", "pool", "reload", "gather", "preempt", "fipwatch"}
var galaxyOps = []string{"add", "add", "del", "policy_event", "policy_sync", "pod_event", "pm_open", "pm_close", "pm_setup", "pm_clean", "pm_sync"}

func genC19() *rapid.Generator[c19Case] {
	return rapid.Custom(func(t *rapid.T) c19Case {
		c := c19Case{Target: rapid.SampledFrom([]string{"ipam", "ipam", "galaxy"}).Draw(t, "target")}
		if s := os.Getenv("VERIF_C19_TARGET"); s != "" {
			c.Target = s
		}
		ops := ipamOps
		if c.Target == "galaxy" {
			ops = galaxyOps
		}
		nw := rapid.IntRange(4, 12).Draw(t, "workers")
		for i := 0; i < nw; i++ {
			n := rapid.IntRange(2, 8).Draw(t, "nOps")
			var w []rop
			for j := 0; j < n; j++ {
				k := rapid.SampledFrom(ops).Draw(t, "op")
				// single-goroutine sources of the daemons: the configmap poll loop (reload) and the resync loop (resync, then
				// pod-IP sync) run in one goroutine each; the periodic policy sync likewise
				if i != 0 && (k == "reload" || k == "policy_sync") {
					k = ops[0]
				}
				if i != 1 && (k == "resync" || k == "syncips") {
					k = ops[1]
				}
				if i != 2 && k == "fipwatch" { // the FloatingIP informer delivers its events from one goroutine
					k = ops[2]
				}
				if i == 2 && c.Target == "ipam" && rapid.Bool().Draw(t, "watcher") {
					k = "fipwatch" // ... and that goroutine is busy with an administrator who reserves and withdraws addresses
				}
				w = append(w, rop{K: k, A: rapid.IntRange(0, 7).Draw(t, "a"), B: rapid.IntRange(0, 7).Draw(t, "b")})
			}
			c.Workers = append(c.Workers, w)
		}
		return c
	})
}

// overlap bookkeeping: which pairs of entry-point kinds were in flight at the same time (logical clock around each op)
type overlapTracker struct {
	mu     sync.Mutex
	active map[string]int
	pairs  map[string]bool
}

func (o *overlapTracker) enter(k string) {
	o.mu.Lock()
	for other, n := range o.active {
		if n > 0 && other != k {
			a, b := k, other
			if a > b {
				a, b = b, a
			}
			o.pairs[a+"+"+b] = true
		}
	}
	o.active[k]++
	o.mu.Unlock()
}

func (o *overlapTracker) leave(k string) {
	o.mu.Lock()
	o.active[k]--
	o.mu.Unlock()
}

var globalPairs sync.Map

func runWorkers(c *c19Case, do func(op rop, worker int)) *overlapTracker {
	ot := &overlapTracker{active: map[string]int{}, pairs: map[string]bool{}}
	var wg sync.WaitGroup
	start := make(chan struct{})
	for wi, w := range c.Workers {
		wg.Add(1)
		go func(wi int, w []rop) {
			defer wg.Done()
			<-start
			for _, op := range w {
				ot.enter(op.K)
				func() {
					defer func() { _ = recover() }() // panics are C18's business; here only the detector speaks
					do(op, wi)
				}()
				ot.leave(op.K)
			}
		}(wi, w)
	}
	close(start)
	wg.Wait()
	for p := range ot.pairs {
		globalPairs.Store(p, true)
	}
	return ot
}

func checkC19(c c19Case, r *vcore.Rec) *vcore.Failure {
	var ot *overlapTracker
	if c.Target == "ipam" {
		ot = runIPAM(&c)
	} else {
		ot = runGalaxy(&c)
	}
	for p := range ot.pairs {
		r.Class("overlap:" + p)
	}
	if len(ot.pairs) >= 1 {
		r.NonTrivial()
	}
	r.Class("target_" + c.Target)
	return nil
}

func runIPAM(c *c19Case) *overlapTracker {
	topo := ipamsim.Topo{Pools: []ipamsim.PoolT{
		{NodeSubnets: []string{"10.49.27.0/24"}, Subnet: "10.0.70.0/24", Gateway: "10.0.70.1", Ranges: [][2]uint32{{0x0a004602, 0x0a004611}}},
		{NodeSubnets: []string{"10.49.27.0/24", "10.49.28.0/26"}, Subnet: "10.0.80.0/24", Gateway: "10.0.80.1", Vlan: 3, Ranges: [][2]uint32{{0x0a005002, 0x0a005009}}}},
		Nodes: []ipamsim.NodeT{{Name: "n0", IP: "10.49.27.3"}, {Name: "n1", IP: "10.49.28.2"}}}
	alt := []ipamsim.PoolT{topo.Pools[0], {NodeSubnets: []string{"10.49.28.0/26"}, Subnet: "10.0.80.0/24", Gateway: "10.0.80.1", Vlan: 3,
		Ranges: [][2]uint32{{0x0a005002, 0x0a005005}}}}
	hc := &ipamsim.Case{Topo: topo, Cloud: true, WLs: []ipamsim.WL{{Kind: "sts", Name: "s0", Replicas: 3, Policy: "immutable"}, {Kind: "dp", Name: "d0", Replicas: 3, Pool: "p0"},
		{Kind: "cr", Name: "c0", Replicas: 2, Policy: "immutable"}, {Kind: "nscr", Name: "x0", Replicas: 2, Policy: "immutable"}, {Kind: "bare", Name: "b0"}}, PoolObjs: []ipamsim.PoolObj{{Name: "p0", Size: 3}}}
	x, err := ipamsim.NewExec(hc, &vcore.Rec{})
	if err != nil {
		panic(err)
	}
	w := x.W
	// all truth manipulation happens before the concurrent phase (the harness' own tables are not the subject)
	var pods []*ipamsim.PodRec
	for wi := range hc.WLs {
		for j := 0; j < 3; j++ {
			if p := w.CreatePod(wi, &hc.WLs[wi], hc.WLs[wi].PodName(j)); p != nil {
				pods = append(pods, p)
			}
		}
	}
	podObjs := map[string]*corev1.Pod{}
	for _, p := range pods {
		podObjs[p.Name] = w.TruthPod(p.Name)
	}
	nodes := []corev1.Node{*topo.Nodes[0].Object(), *topo.Nodes[1].Object()}
	// the daemon's 5 unbind loops (event.go loop): pop a queued release event, unbind, re-queue on error up to 3 times. The
	// configmap and resync loops of Run are represented by the reload / resync ops of workers 0 and 1 (one goroutine each).
	stop := make(chan struct{})
	var loops sync.WaitGroup
	for i := 0; i < 5; i++ {
		loops.Add(1)
		go func() {
			defer loops.Done()
			for {
				select {
				case <-stop:
					return
				default:
				}
				if p := w.Plugin.VerifPopUnreleased(); p != nil {
					func() {
						defer func() { _ = recover() }()
						_ = w.Plugin.VerifUnbind(p)
					}()
				} else {
					time.Sleep(200 * time.Microsecond)
				}
			}
		}()
	}
	defer func() { close(stop); loops.Wait() }()
	var boundMu sync.Mutex
	bound := map[string]bool{}
	claim := func(name string) bool { // the scheduler binds a pod once
		boundMu.Lock()
		defer boundMu.Unlock()
		if bound[name] {
			return false
		}
		bound[name] = true
		return true
	}
	reg := prometheus.NewRegistry()
	_ = reg.Register(w.Plugin.GetIpam())
	var cfgFlip int32
	texts := []string{topo.ConfigText(), ipamsim.ConfigTextOf(alt)}
	return runWorkers(c, func(op rop, wi int) {
		p := pods[(op.A*3+op.B)%len(pods)]
		pod := podObjs[p.Name]
		switch op.K {
		case "filter":
			_, _, _ = w.Plugin.Filter(pod.DeepCopy(), nodes)
		case "bind", "schedule":
			if out, _, err := w.Plugin.Filter(pod.DeepCopy(), nodes); err == nil && len(out) > 0 && claim(p.Name) {
				_ = w.Plugin.Bind(&schedulerapi.ExtenderBindingArgs{PodName: p.Name, PodNamespace: ipamsim.NS, PodUID: types.UID(p.UID), Node: out[op.B%len(out)].Name})
			}
		case "preempt":
			_ = w.Plugin.Preempt(&schedulerapi.ExtenderPreemptionArgs{Pod: pod.DeepCopy(), NodeNameToVictims: map[string]*schedulerapi.Victims{"n0": {}},
				NodeNameToMetaVictims: map[string]*schedulerapi.MetaVictims{}})
		case "update":
			nw := pod.DeepCopy()
			nw.Status.Phase = []corev1.PodPhase{corev1.PodRunning, corev1.PodFailed}[op.B%2]
			_ = w.Plugin.UpdatePod(pod.DeepCopy(), nw)
		case "delete":
			_ = w.Plugin.DeletePod(pod.DeepCopy())
		case "resync":
			_ = w.Plugin.VerifResyncPod()
		case "syncips":
			w.Plugin.VerifSyncPodIPs()
		case "list":
			x.HTTP("GET", fmt.Sprintf("/v1/ip?size=%d&page=%d", 1+op.A, op.B), nil)
		case "release":
			if code, body := x.HTTP("GET", "/v1/ip?size=100", nil); code == 200 {
				var lr api.ListIPResp
				if json.Unmarshal([]byte(body), &lr) == nil && len(lr.Content) > 0 {
					e := lr.Content[(op.A*8+op.B)%len(lr.Content)]
					req, _ := json.Marshal(api.ReleaseIPReq{IPs: []api.FloatingIP{e}})
					x.HTTP("POST", "/v1/ip", req)
				}
			}
		case "pool":
			body, _ := json.Marshal(api.Pool{Name: "p0", Size: op.A % 5, PreAllocateIP: op.B%2 == 0})
			x.HTTP("POST", "/v1/pool", body)
		case "reload":
			w.SetConfig(texts[int(atomic.AddInt32(&cfgFlip, 1))%2])
			_, _ = w.Plugin.VerifUpdateConfigMap()
		case "gather":
			_, _ = reg.Gather()
		case "fipwatch":
			// an administrator creates / deletes a labelled FloatingIP object; the watch event reaches the handlers NewCrdIPAM registered
			ip := fmt.Sprintf("10.0.70.%d", 2+op.A%4)
			obj, err := w.Galaxy.GalaxyV1alpha1().FloatingIPs().Get(context.TODO(), ip, metav1.GetOptions{})
			if err != nil {
				// no object: reserve the address
				if w.AddReserved(ip) == nil {
					if obj, err := w.Galaxy.GalaxyV1alpha1().FloatingIPs().Get(context.TODO(), ip, metav1.GetOptions{}); err == nil {
						w.DeliverFIPEvent(true, obj)
					}
				}
			} else if _, reserved := obj.Labels[constant.ReserveFIPLabel]; reserved {
				// the administrator's own object: withdraw the reservation
				if w.DelReserved(ip) == nil {
					w.DeliverFIPEvent(false, obj)
				}
			}
		}
	})
}

func runGalaxy(c *c19Case) *overlapTracker {
	genv.Reset()
	conf := galaxy.JsonConf{NetworkConf: []map[string]interface{}{{"name": "neta", "type": "fake-a", "cniVersion": "0.2.0"},
		{"name": "netb", "type": "fake-b", "cniVersion": "0.2.0"}, {"name": "netc", "type": "fake-c", "cniVersion": "0.2.0"}},
		DefaultNetworks: []string{"neta", "netb"}}
	// networks that exist only as files of the network conf dir (looked up per request, not loaded at start)
	for _, n := range []string{"netd", "nete", "netf"} {
		data, _ := json.Marshal(map[string]interface{}{"name": n, "type": "fake-a", "cniVersion": "0.2.0"})
		_ = os.WriteFile(filepath.Join(genv.Dir, "conf", n+".conf"), data, 0644)
	}
	var pods []*corev1.Pod
	for i := 0; i < 4; i++ {
		ann := map[string]string{}
		switch i {
		case 1:
			ann["k8s.v1.cni.cncf.io/networks"] = "netb,netc@x1,neta"
		case 2:
			ann["k8s.v1.cni.cncf.io/networks"] = "netd,nete"
		case 3:
			ann["k8s.v1.cni.cncf.io/networks"] = "netf,netb,netd"
		}
		pods = append(pods, galaxysim.Pod("ns1", fmt.Sprintf("pod%d", i), ann, false))
	}
	d, err := galaxysim.NewDaemon(genv, conf, genv.Dir, pods)
	if err != nil {
		panic(err)
	}
	// policy manager on the mutex-protected strict fakes
	sets := nf.NewIPSet()
	sim := netsim.NewSim(nf.NewIPTables(sets), sets)
	cl := netsim.ClusterT{Namespaces: []netsim.NsT{{Name: "ns0", Labels: map[string]string{"app": "a"}}, {Name: "ns1", Labels: map[string]string{}}}}
	for i := 0; i < 6; i++ {
		cl.Pods = append(cl.Pods, netsim.PodT{Ns: fmt.Sprintf("ns%d", i%2), Name: fmt.Sprintf("p%d", i), Labels: map[string]string{"app": []string{"a", "b"}[i%2]},
			IP: fmt.Sprintf("10.20.0.%d", 10+i), Local: i%3 != 0})
	}
	for i := 0; i < 3; i++ {
		cl.Policies = append(cl.Policies, netsim.PolicyT{Ns: fmt.Sprintf("ns%d", i%2), Name: fmt.Sprintf("np%d", i), Sel: netsim.SelT{Labels: map[string]string{"app": "a"}},
			Types: []string{"Ingress", "Egress"}, Ingress: []netsim.RuleT{{Peers: []netsim.PeerT{{Pod: netsim.SelT{Labels: map[string]string{"app": "b"}}, Ns: netsim.SelT{Nil: true}}},
				Ports: []netsim.PortT{{Proto: "TCP", Port: 80}}}}, Egress: []netsim.RuleT{{Peers: []netsim.PeerT{{CIDR: "192.168.10.0/24", Pod: netsim.SelT{Nil: true}, Ns: netsim.SelT{Nil: true}}}}}})
	}
	sim.Load(cl)
	sim.PM.Run()
	// port mapping handler on a strict fake
	pm := portmapping.New("")
	pm.Interface = nf.NewIPTables(nil)
	_ = pm.SetupPortMappingForAllPods(nil)
	cids := make([]string, 8)
	for i := range cids {
		cids[i] = galaxysim.ContainerID(fmt.Sprintf("r%d", i))
	}
	defer func() {
		for _, id := range cids {
			galaxysim.RemoveState(id)
		}
	}()
	return runWorkers(c, func(op rop, wi int) {
		// each worker owns its containers (kubelet serialises the requests of one container)
		cid := cids[wi%len(cids)]
		podName := fmt.Sprintf("pod%d", wi%4)
		switch op.K {
		case "add":
			d.Request("ADD", cid, "ns1", podName, "eth0", "")
		case "del":
			d.Request("DEL", cid, "ns1", podName, "eth0", "")
		case "policy_event":
			p := cl.Policies[op.A%len(cl.Policies)]
			switch op.B % 3 {
			case 0:
				sim.SetPolicy(p, true)
				_ = sim.PM.AddPolicy(p.ToK8s())
			case 1:
				_ = sim.PM.UpdatePolicy(p.ToK8s(), p.ToK8s())
			default:
				// the informer has dropped the policy from its store when the handler runs: its chain is stale but still referred to
				// by the chains of the pods it selected, so this pass keeps it for a second sweep
				sim.SetPolicy(p, false)
				_ = sim.PM.DeletePolicy(p.ToK8s())
			}
		case "policy_sync":
			sim.PM.Run()
		case "pod_event":
			p := cl.Pods[op.A%len(cl.Pods)]
			if op.B%2 == 0 {
				_ = sim.PM.UpdatePod(p.ToK8s(), p.ToK8s())
			} else {
				_ = sim.PM.DeletePod(p.ToK8s())
			}
		case "pm_open":
			// a pod with a (random) host port comes and goes a few times, as its ADD / DEL requests do
			name := fmt.Sprintf("pmpod%d_ns", wi)
			for k := 0; k < 6; k++ {
				if err := pm.OpenHostports(name, true, []k8s.Port{{HostPort: 0, ContainerPort: 80, Protocol: "tcp", PodName: name, PodIP: "172.16.5.9"}}); err == nil {
					pm.CloseHostports(name)
				}
			}
		case "pm_close":
			// DEL requests of pods without host ports
			for k := 0; k < 6; k++ {
				pm.CloseHostports(fmt.Sprintf("plain%d-%d_ns", wi, k))
			}
		case "pm_setup":
			_ = pm.SetupPortMapping([]k8s.Port{{HostPort: int32(31000 + wi), ContainerPort: 80, Protocol: "tcp", PodName: fmt.Sprintf("pmpod%d_ns", wi), PodIP: "172.16.5.9"}})
		case "pm_clean":
			_ = pm.CleanPortMapping([]k8s.Port{{HostPort: int32(31000 + wi), ContainerPort: 80, Protocol: "tcp", PodName: fmt.Sprintf("pmpod%d_ns", wi), PodIP: "172.16.5.9"}})
		case "pm_sync":
			_ = pm.SetupPortMappingForAllPods([]k8s.Port{{HostPort: 31999, ContainerPort: 80, Protocol: "udp", PodName: "x_ns", PodIP: "172.16.5.8"}})
		}
	})
}

func TestC19(t *testing.T) {
	vcore.CaseTimeout = 120e9
	vcore.Run(t, "C19", genC19(), checkC19)
	var pairs []string
	globalPairs.Range(func(k, _ interface{}) bool { pairs = append(pairs, k.(string)); return true })
	vcore.Extra("distinct_overlapping_entry_point_pairs", int64(len(pairs)))
}
