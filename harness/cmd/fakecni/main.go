// fakecni is a recording fake CNI plugin: it appends one JSON record per invocation to $FAKECNI_DIR/log, fails when the
// per-case failure script says so and otherwise prints a valid result whose address is derived from the network name.
package main

import (
	"crypto/sha1"
	"encoding/json"
	"fmt"
	"io"
	"os"
	"path/filepath"
)

type record struct {
	Binary      string          `json:"binary"`
	Command     string          `json:"command"`
	ContainerID string          `json:"container_id"`
	Netns       string          `json:"netns"`
	IfName      string          `json:"ifname"`
	Args        string          `json:"args"`
	Path        string          `json:"path"`
	Stdin       json.RawMessage `json:"stdin"`
	Network     string          `json:"network"`
	Nth         int             `json:"nth"`
	Failed      bool            `json:"failed"`
}

// ResultIP is the address a fake plugin reports for a network name.
func resultIP(network string) string {
	h := sha1.Sum([]byte(network))
	return fmt.Sprintf("10.%d.%d.%d", 100+int(h[0])%100, h[1], 2+int(h[2])%250)
}

func main() {
	dir := os.Getenv("FAKECNI_DIR")
	stdin, _ := io.ReadAll(os.Stdin)
	var conf struct {
		Name string `json:"name"`
		Type string `json:"type"`
	}
	_ = json.Unmarshal(stdin, &conf)
	network := conf.Name
	if network == "" {
		network = conf.Type
	}
	rec := record{Binary: filepath.Base(os.Args[0]), Command: os.Getenv("CNI_COMMAND"), ContainerID: os.Getenv("CNI_CONTAINERID"),
		Netns: os.Getenv("CNI_NETNS"), IfName: os.Getenv("CNI_IFNAME"), Args: os.Getenv("CNI_ARGS"), Path: os.Getenv("CNI_PATH"),
		Network: network}
	if json.Valid(stdin) {
		rec.Stdin = stdin
	} else {
		b, _ := json.Marshal(string(stdin))
		rec.Stdin = b
	}
	if rec.Command == "VERSION" {
		fmt.Print(`{"cniVersion":"0.2.0","supportedVersions":["0.1.0","0.2.0"]}`)
		return
	}
	// n-th call of (container, network, command)
	cnt := filepath.Join(dir, "count", fmt.Sprintf("%s.%s.%s", rec.ContainerID, network, rec.Command))
	if f, err := os.OpenFile(cnt, os.O_APPEND|os.O_CREATE|os.O_WRONLY, 0644); err == nil {
		_, _ = f.Write([]byte{'x'})
		_ = f.Close()
	}
	if st, err := os.Stat(cnt); err == nil {
		rec.Nth = int(st.Size())
	}
	if _, err := os.Stat(filepath.Join(dir, "fail", fmt.Sprintf("%s.%s.%s.%d", rec.ContainerID, network, rec.Command, rec.Nth))); err == nil {
		rec.Failed = true
	}
	line, _ := json.Marshal(rec)
	if f, err := os.OpenFile(filepath.Join(dir, "log"), os.O_APPEND|os.O_CREATE|os.O_WRONLY, 0644); err == nil {
		_, _ = f.Write(append(line, '\n'))
		_ = f.Close()
	}
	if rec.Failed {
		fmt.Printf(`{"cniVersion":"0.2.0","code":100,"msg":"scripted failure of %s %s #%d"}`, network, rec.Command, rec.Nth)
		os.Exit(1)
	}
	if rec.Command == "ADD" {
		ip := resultIP(network)
		// a case may pin the address reported for a container
		if b, err := os.ReadFile(filepath.Join(dir, "ip", rec.ContainerID)); err == nil && len(b) > 0 {
			ip = string(b)
		}
		fmt.Printf(`{"cniVersion":"0.2.0","ip4":{"ip":"%s/24","gateway":"10.0.0.1","routes":[{"dst":"0.0.0.0/0"}]},"dns":{}}`, ip)
	}
}
