package ipamsim

import (
	"fmt"
	"strings"

	putil "tkestack.io/galaxy/pkg/ipam/schedulerplugin/util"
	"verifharness/vcore"
)

// Agreement compares the in-memory tables of the running IPAM with the persisted FloatingIP objects for every
// configured IP (C05 agreement clause; also used by C09 after reloads).
func (x *Exec) Agreement() *vcore.Failure {
	alloc, unalloc := x.W.Tables()
	store := x.W.StoreList()
	conf := AllIPsOf(x.ConfInForce)
	pendingAdd := map[string]bool{}
	pendingDel := map[string]bool{}
	for _, ev := range x.W.FipEvents {
		if ev.Add {
			pendingAdd[ev.Obj.Name] = true
		} else {
			pendingDel[ev.Obj.Name] = true
		}
	}
	for ip := range conf {
		m, inMem := alloc[ip]
		s, inStore := store[ip]
		u, free := unalloc[ip]
		if !free && !inMem {
			return vcore.Failf("c05:missing", "configured IP %s is in neither table", ip)
		}
		if free && !inMem && u.Key != "" {
			// ByIP and ByPrefix answer from this entry too: a free IP that reports an owner is a disagreement with the store
			return vcore.Failf("c05:free_with_key", "IP %s is in the free table (FloatingIP object exists: %v) but the IPAM reports it with key %q pod uid %q", ip, inStore,
				u.Key, u.PodUid)
		}
		if pendingAdd[ip] || pendingDel[ip] {
			continue // an administrator's reservation whose watch event has not been delivered yet
		}
		if inMem != inStore {
			return vcore.Failf("c05:disagree", "IP %s: allocated in memory=%v (key %q), FloatingIP object exists=%v (key %q)", ip, inMem, m.Key,
				inStore, s.Key)
		}
		if !inMem {
			continue
		}
		if m.Key != s.Key || m.Policy != s.Policy {
			return vcore.Failf("c05:disagree", "IP %s: memory has key %q policy %d, store has key %q policy %d", ip, m.Key, m.Policy, s.Key,
				s.Policy)
		}
		if !s.Reserved && (m.NodeName != s.NodeName || m.PodUid != s.UID) {
			return vcore.Failf("c05:disagree_attr", "IP %s (key %q): memory has node %q uid %q, store has node %q uid %q", ip, m.Key, m.NodeName,
				m.PodUid, s.NodeName, s.UID)
		}
	}
	return nil
}

// RestartEquivalent builds a fresh plugin over the same store and compares its table dump with the running one.
func (x *Exec) RestartEquivalent() *vcore.Failure {
	if len(x.W.FipEvents) > 0 {
		return nil // a restarted IPAM sees reservations whose watch event the running one has not seen yet
	}
	before := x.W.Snap()
	if err := x.W.Restart(); err != nil {
		return vcore.Failf("c05:restart", "restart failed: %v", err)
	}
	x.W.FipEvents = nil
	x.buildAPI()
	after := x.W.Snap()
	conf := AllIPsOf(x.currentConfigFromCM())
	for ip := range conf {
		b, bok := before.Alloc[ip]
		a, aok := after.Alloc[ip]
		if bok != aok || b.Key != a.Key || b.Policy != a.Policy || b.UID != a.UID || b.Node != a.Node {
			return vcore.Failf("c05:restart_differs", "IP %s: before restart %+v (allocated=%v), after restart %+v (allocated=%v)", ip, b, bok, a, aok)
		}
	}
	return nil
}

// LeakCheck is the no-leak clause of C03: no IP stays assigned to a pod that no longer exists unless its policy
// reserves it.
func (x *Exec) LeakCheck(sig string) *vcore.Failure {
	snap := x.W.Snap()
	for ip, f := range snap.Alloc {
		if f.Reserved {
			continue
		}
		if f.Key == "" {
			// allocated (taken out of the free table, an object in the store) but owned by nobody: no release path ever finds it
			return vcore.Failf(sig, "IP %s is allocated to the empty key: it belongs to nobody and can never be released or handed out again", ip)
		}
		ko := putil.ParseKey(f.Key)
		if ko.PodName == "" || !x.truthGone(ko.PodName) {
			continue
		}
		wl := x.wlByKey(ko)
		holdings := 0
		if wl != nil && wl.Kind == "dp" {
			pre := poolPrefixOf(wl)
			for _, g := range snap.Alloc {
				if strings.HasPrefix(g.Key, pre) {
					holdings++
				}
			}
		}
		pol := f.Policy
		if wl != nil {
			pol = uint16(wl.PolicyNum())
		}
		keep, known := x.keepDecision(pol, ko, wl, holdings)
		if !known {
			continue
		}
		if wl.Kind == "dp" {
			keep = false // a kept deployment IP is re-keyed to the prefix; a pod key of a gone pod is a leak either way
		}
		if !keep {
			return vcore.Failf(sig, "IP %s is still assigned to %q (policy %d) although its pod is gone and the policy does not reserve it "+
				"(workload view: %s)", ip, f.Key, f.Policy, x.viewStr(wl))
		}
	}
	return nil
}

// ---------- C05 observer ----------

type ObsC05 struct {
	Crashes   int
	FaultHits int
	own       ObsC01
}

func (o *ObsC05) AfterStep(x *Exec) *vcore.Failure { return nil }

func (o *ObsC05) AfterOp(x *Exec, i int, op Op, res *OpResult) *vcore.Failure {
	if res.Crashed {
		o.Crashes++
		// restart already happened (listers synced); one resync pass and one pod-IP sync pass
		if err, _ := x.W.Resync(); err != nil {
			x.Rec.Logf("    resync after crash: %v", err)
		}
		x.W.SyncPodIPs()
		x.Rec.Logf("    -- after crash+restart+resync+syncips: %s", x.W.DumpState())
		if f := o.own.check(x, true); f != nil {
			f.Sig = "c05:crash:" + f.Sig
			f.Msg = "after crash, restart and resync: " + f.Msg
			return f
		}
		alloc, _ := x.W.Tables()
		for _, p := range x.livePods() {
			for _, ip := range p.Payload {
				if !inConfig(x.ConfInForce, ip) || x.everDropped(ip) {
					continue // an earlier reload without this IP dropped the allocation for good (C09): nothing to lose any more
				}
				if f, ok := alloc[ip]; !ok || f.Key != p.Key {
					return vcore.Failf("c05:crash:pod_lost_ip", "after crash, restart and resync the existing pod %s (uid %s) no longer owns the IP %s "+
						"it was bound with (owner now %q)", p.Name, p.UID, ip, f.Key)
				}
			}
		}
		if f := x.LeakCheck("c05:crash:leak"); f != nil {
			f.Msg = "after crash, restart and resync: " + f.Msg
			return f
		}
	}
	if f := x.Agreement(); f != nil {
		f.Msg = fmt.Sprintf("after op %d (%s, err=%v): %s", i, op.K, res.Err, f.Msg)
		return f
	}
	return nil
}
