package ipamsim

import (
	"fmt"
	"strconv"
	"strings"

	corev1 "k8s.io/api/core/v1"
	putil "tkestack.io/galaxy/pkg/ipam/schedulerplugin/util"
	"verifharness/vcore"
)

// ---------- C02: float IP is sticky across reschedule and rolling update ----------

type ObsC02 struct {
	Sticky int // bindings that happened while a reservation for that identity existed
	// never policy: the IP an identity was bound with stays its IP until an administrator releases it or a reload drops it
	lastIP   map[string]string
	released map[string]bool
	// filterGave: the reserved IP of its app that filter re-keyed to a deployment/pool pod (bind must use it)
	filterGave map[string]string
}

func (o *ObsC02) AfterStep(x *Exec) *vcore.Failure { return nil }

func firstOr(l []string) string {
	if len(l) == 0 {
		return ""
	}
	return l[0]
}

func poolPrefixOf(wl *WL) string {
	if wl.Pool != "" {
		return "pool__" + wl.Pool + "_"
	}
	return "dp_" + NS + "_" + wl.Name + "_"
}

func (o *ObsC02) AfterOp(x *Exec, i int, op Op, res *OpResult) *vcore.Failure {
	if o.lastIP == nil {
		o.lastIP, o.released = map[string]string{}, map[string]bool{}
	}
	if op.K == "apirelease" && res.Entry != nil && res.HTTPCode == 200 {
		o.released[res.Entry.IP] = true
		// the administrator ended the reservation: the identity that held this IP has no claim on it any more (the marker
		// above is dropped as soon as another identity is bound with the IP, so forget the claim itself)
		for k, v := range o.lastIP {
			if v == res.Entry.IP {
				delete(o.lastIP, k)
			}
		}
	}
	if res.BoundNow && res.Pod != nil {
		p := res.Pod
		wl := x.wl(p)
		if wl.Kind != "dp" && wl.PolicyNum() == 2 && len(wl.Ranges) == 0 && len(p.Payload) == 1 {
			if prev, ok := o.lastIP[p.Key]; ok && prev != p.Payload[0] && !o.released[prev] && inConfig(x.ConfInForce, prev) && !x.everDropped(prev) {
				return vcore.Failf("c02:never_lost", "pod identity %s (policy never) was bound with %s before and nobody released that IP, but it is "+
					"now bound with %s", p.Key, prev, p.Payload[0])
			}
			o.lastIP[p.Key] = p.Payload[0]
			delete(o.released, p.Payload[0])
		}
	}
	if res.Pod == nil || res.Concurrent || (op.K != "filter" && op.K != "sched" && op.K != "bind") {
		return nil
	}
	p := res.Pod
	wl := x.wl(p)
	if wl.PolicyNum() == 0 || len(wl.Ranges) > 0 {
		return nil
	}
	if wl.Kind == "dp" {
		if op.K == "bind" || res.Before == nil || res.After == nil {
			// plain bind: the IP re-keyed during filter must be the one bound
			if res.BoundNow && res.BeforeBind != nil {
				held := res.BeforeBind.ByKey(p.Key)
				if len(held) > 0 && !(len(p.Payload) == 1 && contains(held, p.Payload[0])) {
					return vcore.Failf("c02:dp_bind_other_ip", "pod %s held %v before bind but was bound with %v", p.Name, held, p.Payload)
				}
				if len(held) > 0 {
					o.Sticky++
				}
				// the IP filter handed to the pod was taken away again before the bind (nobody may do that to a pod that exists):
				// the bind then allocates a fresh IP although the app still holds reserved ones
				if gave, ok := o.filterGave[p.UID]; ok && len(held) == 0 && len(p.Payload) == 1 && p.Payload[0] != gave &&
					contains(res.BeforeBind.ByKey(poolPrefixOf(wl)), gave) && !x.everDropped(gave) {
					return vcore.Failf("c02:dp_fresh_ip", "deployment/pool pod %s: filter gave it the reserved IP %s of its app, the IP was moved back to %q "+
						"before the bind although the pod exists, and the pod was bound with the fresh IP %v", p.Name, gave, poolPrefixOf(wl), p.Payload)
				}
			}
			return nil
		}
		prefix := poolPrefixOf(wl)
		reserved := res.Before.ByKey(prefix)
		own := res.Before.ByKey(p.Key)
		if len(own) == 0 && len(reserved) > 0 && res.Err == nil && len(res.Nodes) > 0 || (len(own) == 0 && len(reserved) > 0 && res.BoundNow) {
			now := res.After.ByKey(p.Key)
			if b, ok := res.Before.Alloc[firstOr(now)]; len(now) == 1 && len(own) == 0 && ok && b.Key == prefix {
				if o.filterGave == nil {
					o.filterGave = map[string]string{}
				}
				o.filterGave[p.UID] = now[0]
			}
			if len(now) != 1 || !contains(reserved, now[0]) {
				return vcore.Failf("c02:dp_fresh_ip", "deployment/pool pod %s: app holds reserved IPs %v under %q but filter gave it %v", p.Name,
					reserved, prefix, now)
			}
			if res.BoundNow {
				if len(p.Payload) != 1 || !contains(reserved, p.Payload[0]) {
					return vcore.Failf("c02:dp_fresh_ip", "deployment/pool pod %s: reserved IPs %v but bound with %v", p.Name, reserved, p.Payload)
				}
				o.Sticky++
			}
		}
		if len(own) > 0 && res.BoundNow {
			if len(p.Payload) != 1 || !contains(own, p.Payload[0]) {
				return vcore.Failf("c02:dp_bind_other_ip", "pod %s held %v before filter but was bound with %v", p.Name, own, p.Payload)
			}
			o.Sticky++
		}
		return nil
	}
	// statefulset / custom resource / bare pods: the reservation is keyed by the pod key
	before := res.Before
	if before == nil {
		return nil
	}
	held := before.ByKey(p.Key)
	if len(held) == 0 {
		return nil
	}
	if op.K != "bind" && res.Err == nil {
		// (a) only nodes from which the reserved IP is routable
		ipPool := AllIPsOf(x.ConfInForce)
		pi, ok := ipPool[held[0]]
		if ok && len(held) == 1 {
			for _, n := range res.Nodes {
				if !x.ConfInForce[pi].RoutableFrom(x.nodeIP(n)) {
					return vcore.Failf("c02:unroutable_node", "pod %s holds reserved IP %s but filter offered node %s (%s) outside its node subnets %v",
						p.Name, held[0], n, x.nodeIP(n), x.ConfInForce[pi].NodeSubnets)
				}
			}
		}
	}
	if res.BoundNow {
		if len(p.Payload) != 1 || !contains(held, p.Payload[0]) {
			return vcore.Failf("c02:other_ip", "pod %s (policy %s) had reserved IP(s) %v but was bound with %v", p.Name, wl.Policy, held, p.Payload)
		}
		o.Sticky++
	}
	return nil
}

func contains(l []string, s string) bool {
	for _, x := range l {
		if x == s {
			return true
		}
	}
	return false
}

func (x *Exec) nodeIP(name string) string {
	for _, n := range x.W.Topo.Nodes {
		if n.Name == name {
			return n.IP
		}
	}
	return ""
}

// ---------- C03: IPs are released exactly when the release policy says so ----------

type ObsC03 struct {
	Keeps, Releases int
	ScaleOrDelete   bool
	// ConcurrentExcess: sibling pods of an immutable deployment holding more IPs than replicas were unbound concurrently
	ConcurrentExcess bool
}

// immutableFloor: an immutable deployment that exists with r > 0 replicas keeps min(IPs held, r) IPs over the unbinds of its deleted
// pods ("release the exceeding part"), in whatever order - or overlap - the delete events are handled.
func (o *ObsC03) immutableFloor(x *Exec, op Op) *vcore.Failure {
	if op.K != "unbind" {
		return nil
	}
	for _, sub := range x.CurSubs {
		// part of an episode: only when nothing but delete events of pods is handled in it (an administrator's release or a
		// reload running next to the unbind may take more away)
		if canonKind(sub.K) != "unbind" {
			return nil
		}
	}
	if x.LastQuiescent == nil {
		return nil
	}
	after := x.W.Snap()
	for wi := range x.C.WLs {
		wl := &x.C.WLs[wi]
		if wl.Kind != "dp" || wl.Policy != "immutable" || wl.Pool != "" || len(wl.Ranges) > 0 || len(wl.AltRanges) > 0 {
			continue
		}
		exists, r := x.W.WorkloadView(wl)
		if !exists || r <= 0 {
			continue
		}
		pre := poolPrefixOf(wl)
		before, now, live := 0, 0, false
		for ip, f := range x.LastQuiescent.Alloc {
			if !strings.HasPrefix(f.Key, pre) || !inConfig(x.ConfInForce, ip) {
				continue
			}
			before++
			if a, ok := after.Alloc[ip]; ok && strings.HasPrefix(a.Key, pre) {
				continue
			}
			if ko := putil.ParseKey(f.Key); ko.PodName != "" && !x.truthGone(ko.PodName) {
				live = true // a live pod of that name lost it: C04's business
			}
		}
		for ip, f := range after.Alloc {
			if strings.HasPrefix(f.Key, pre) && inConfig(x.ConfInForce, ip) {
				now++
			}
		}
		if len(x.CurSubs) >= 2 && before > r {
			o.ConcurrentExcess = true
		}
		floor := before
		if r < floor {
			floor = r
		}
		if !live && now < floor {
			return vcore.Failf("c03:premature_release:immutable_floor", "immutable deployment %s (%d replicas) held %d IPs before %s and holds %d after: "+
				"only the part exceeding the replicas may be released", wl.Name, r, before, map[bool]string{false: "the unbind", true: "the concurrent unbinds"}[len(x.CurSubs) >= 2], now)
		}
	}
	return nil
}

func (o *ObsC03) AfterStep(x *Exec) *vcore.Failure { return nil }

func podIndex(name string) (int, bool) {
	parts := strings.Split(name, "-")
	n, err := strconv.Atoi(parts[len(parts)-1])
	return n, err == nil
}

func (x *Exec) wlByKey(ko *putil.KeyObj) *WL {
	for i := range x.C.WLs {
		wl := &x.C.WLs[i]
		switch wl.Kind {
		case "bare":
			if ko.AppTypePrefix == putil.NoRefAppTypePrefix && (ko.PodName == wl.Name || strings.HasPrefix(ko.PodName, wl.Name+"-")) {
				return wl
			}
		default:
			if ko.AppName == wl.Name {
				return wl
			}
		}
	}
	return nil
}

// truthGone: no pod of that name exists, or it has finished.
func (x *Exec) truthGone(name string) bool {
	pod := x.W.truthPod(name)
	if pod == nil {
		return true
	}
	return pod.Status.Phase == corev1.PodSucceeded || pod.Status.Phase == corev1.PodFailed
}

// keepDecision is the reference model of the documented release policy for an IP keyed to a pod whose pod is gone.
// It returns (keep, known): known=false when the documentation leaves the outcome open.
func (x *Exec) keepDecision(policy uint16, ko *putil.KeyObj, wl *WL, holdings int) (bool, bool) {
	if wl == nil {
		return false, false
	}
	switch policy {
	case 0:
		return false, true
	case 2:
		if wl.Kind == "dp" {
			return true, true // kept in reserve (re-keyed to the app / pool prefix)
		}
		if _, ok := podIndex(ko.PodName); !ok {
			return false, true // never is not supported for such pods: treated as default
		}
		return true, true
	case 1:
		exists, replicas := x.W.WorkloadView(wl)
		switch wl.Kind {
		case "sts", "cr":
			idx, ok := podIndex(ko.PodName)
			if !ok {
				return false, true
			}
			return exists && replicas > idx, true
		case "dp":
			if !exists || replicas == 0 {
				return false, true
			}
			return holdings <= replicas, true
		default:
			return false, true // immutable is not supported for these kinds: default
		}
	}
	return false, false
}

func (o *ObsC03) AfterOp(x *Exec, i int, op Op, res *OpResult) *vcore.Failure {
	switch op.K {
	case "scale", "delwl", "mkwl":
		o.ScaleOrDelete = true
	}
	if f := o.immutableFloor(x, op); f != nil {
		return f
	}
	if x.C.Lag {
		// the no-premature-release clause uses the view the code legitimately sees; with lagging pod listers the
		// decision inputs differ from the truth, so only the quiescence clause is evaluated (listers are synced there)
	}
	if (op.K == "unbind" || op.K == "resync" || op.K == "quiesce") && res.Before != nil && !res.Concurrent {
		after := x.W.Snap()
		for ip, b := range res.Before.Alloc {
			if b.Reserved || b.Key == "" {
				continue
			}
			ko := putil.ParseKey(b.Key)
			if ko.PodName == "" {
				continue
			}
			if !inConfig(x.ConfInForce, ip) {
				continue
			}
			a, still := after.Alloc[ip]
			if still && a.Key == b.Key {
				continue
			}
			// the IP left the pod key during this evaluation: was that allowed?
			if !x.truthGone(ko.PodName) {
				continue // a live pod of that name exists: C04's business
			}
			wl := x.wlByKey(ko)
			holdings := 0
			if wl != nil && wl.Kind == "dp" {
				pre := poolPrefixOf(wl)
				for _, f := range res.Before.Alloc {
					if strings.HasPrefix(f.Key, pre) {
						holdings++
					}
				}
			}
			pol := b.Policy
			if wl != nil {
				pol = uint16(wl.PolicyNum()) // the policy is what the pod's annotations say, not what happens to be stored
			}
			keep, known := x.keepDecision(pol, ko, wl, holdings)
			if !known {
				continue
			}
			if !keep {
				o.Releases++
				continue
			}
			o.Keeps++
			if wl.Kind == "dp" {
				// keeping = still allocated under the app/pool prefix or a pod of the same app
				if still && strings.HasPrefix(a.Key, poolPrefixOf(wl)) {
					continue
				}
				if op.K != "unbind" {
					// resync evaluates IPs one by one; an earlier release in the same pass may have changed holdings
					continue
				}
			}
			return vcore.Failf("c03:premature_release", "%s released/re-keyed IP %s of %q (policy %d) although the documented policy keeps it "+
				"(workload %s view: %s)", op.K, ip, b.Key, b.Policy, wl.Name, x.viewStr(wl))
		}
		// count keep decisions that were honoured
		for ip, b := range res.Before.Alloc {
			ko := putil.ParseKey(b.Key)
			if ko.PodName == "" || b.Policy == 0 || !x.truthGone(ko.PodName) {
				continue
			}
			if a, ok := after.Alloc[ip]; ok && a.Key == b.Key && op.K != "unbind" {
				o.Keeps++
			}
		}
	}
	// "released exactly when the policy says so": an unbind that ran to completion for a gone pod must have released
	// every IP of that pod for which the documented policy says release
	if op.K == "unbind" && res.Before != nil && !res.Concurrent && res.Err == nil && res.UnbindPod != nil {
		if ko, err := putil.FormatKey(res.UnbindPod); err == nil && x.truthGone(res.UnbindPod.Name) {
			after := x.W.Snap()
			wl := x.wlByKey(ko)
			foreign := false
			for _, ip := range res.Before.ByKey(ko.KeyInDB) {
				if b := res.Before.Alloc[ip]; b.UID != "" && b.UID != string(res.UnbindPod.UID) {
					foreign = true // an IP of the key belongs to another incarnation: unbind leaves the key alone (resync decides)
				}
			}
			for _, ip := range res.Before.ByKey(ko.KeyInDB) {
				if foreign {
					break
				}
				if !inConfig(x.ConfInForce, ip) || wl == nil {
					continue
				}
				holdings := 0
				if wl.Kind == "dp" {
					for _, f := range res.Before.Alloc {
						if strings.HasPrefix(f.Key, poolPrefixOf(wl)) {
							holdings++
						}
					}
				}
				// the decision uses the policy of the pod object handed to unbind
				pol := uint16(wl.PolicyNum())
				keep, known := x.keepDecision(pol, ko, wl, holdings)
				if !known || keep {
					continue
				}
				if a, still := after.Alloc[ip]; still {
					return vcore.Failf("c03:not_released", "unbind of gone pod %s kept IP %s (now keyed %q) although the documented policy "+
						"(policy %d, workload view %s, app holdings %d) says release", res.UnbindPod.Name, ip, a.Key, pol, x.viewStr(wl), holdings)
				}
			}
		}
	}
	if op.K == "quiesce" {
		if f := x.LeakCheck("c03:leak"); f != nil {
			f.Msg = "after quiescence: " + f.Msg
			return f
		}
	}
	return nil
}

func (x *Exec) viewStr(wl *WL) string {
	if wl == nil {
		return "?"
	}
	e, r := x.W.WorkloadView(wl)
	return fmt.Sprintf("%s exists=%v replicas=%d", wl.Name, e, r)
}

// ---------- C10: cloud-provider assign/unassign calls are well ordered per IP ----------

type ObsC10 struct {
	seen      int
	state     map[string]string
	Moved     bool
	ProvFail  bool
	boundNode map[string]string
	// dropped: IPs an administrator removed from the configuration while the provider had them assigned. The record is deleted
	// without a provider call (that is what de-configuring an address in use means, and no clause of C10 speaks about it), so
	// until IPAM holds a record for the address again - or assigns it afresh - provider and IPAM cannot agree about it.
	// everDropped keeps them for the pod-side clause: the old holder may still run with the address.
	dropped, everDropped map[string]bool
	Dropped              bool
	// lastHold: the (key, pod uid) last seen holding each IP; dropHold: the holder an IP was taken away from
	lastHold, dropHold map[string][2]string
}

func (o *ObsC10) replay(x *Exec) *vcore.Failure {
	if o.state == nil {
		o.state = map[string]string{}
	}
	x.W.Cloud.mu.Lock()
	calls := append([]cloudCall{}, x.W.Cloud.calls...)
	x.W.Cloud.mu.Unlock()
	for i := o.seen; i < len(calls); i++ {
		c := calls[i]
		if !c.OK {
			o.ProvFail = true
			continue // failed cleanly: no effect
		}
		if c.Assign {
			if cur := o.state[c.IP]; cur != "" && cur != c.Node && o.dropped[c.IP] {
				delete(o.dropped, c.IP) // assigned afresh after the administrator took it away from its holder
			} else if cur != "" && cur != c.Node {
				o.seen = len(calls)
				return vcore.Failf("c10:double_assign", "provider call #%d assigns %s to node %s while it is still assigned to node %s", i, c.IP,
					c.Node, cur)
			}
			o.state[c.IP] = c.Node
		} else {
			if cur := o.state[c.IP]; cur == "" || cur == c.Node {
				o.state[c.IP] = ""
			}
		}
	}
	o.seen = len(calls)
	return nil
}

func (o *ObsC10) check(x *Exec, quiescent bool) *vcore.Failure {
	if f := o.replay(x); f != nil {
		return f
	}
	alloc, unalloc, ok := x.W.TryTables()
	if !ok {
		return nil
	}
	if o.dropped == nil {
		o.dropped, o.everDropped = map[string]bool{}, map[string]bool{}
		o.lastHold, o.dropHold = map[string][2]string{}, map[string][2]string{}
	}
	for ip, n := range o.state {
		if n != "" && !inConfig(x.ConfInForce, ip) && !o.dropped[ip] {
			o.dropped[ip], o.everDropped[ip], o.Dropped = true, true, true
			o.dropHold[ip] = o.lastHold[ip]
		}
	}
	for ip := range o.dropped {
		// the record of the very pod it was taken from is back (the pod-IP sync re-creates it): the ordinary rules apply again.
		// A record for anybody else is a fresh allocation, whose first assignment meets the provider's left-over one
		f, held := alloc[ip]
		if !held || [2]string{f.Key, f.PodUid} != o.dropHold[ip] || f.PodUid == "" {
			continue
		}
		// ... and it is the record of a pod that runs with the address (what the pod-IP sync restores), not a fresh allocation
		// for a pod that was never bound (its filter) or is being bound elsewhere
		boundHolder := false
		for _, lp := range x.livePods() {
			if lp.UID == f.PodUid && lp.Node == o.state[ip] {
				boundHolder = true
			}
		}
		if boundHolder && (f.NodeName == "" || f.NodeName == o.state[ip]) {
			delete(o.dropped, ip)
		}
	}
	for ip, f := range alloc {
		o.lastHold[ip] = [2]string{f.Key, f.PodUid}
	}
	if quiescent {
		for ip := range unalloc {
			if o.dropped[ip] {
				continue
			}
			if n := o.state[ip]; n != "" && x.MixedKeys[x.LastKey[ip]] {
				return vcore.Failf("c10:freed_while_assigned:stale_sync_mixed_uid", "IP %s is free in IPAM but the provider still has it "+
					"assigned to node %s; its key %q also held an IP re-allocated for an older incarnation by the pod-IP sync of a stale "+
					"update event, and resync cleared/released every IP of the key after unassigning only one", ip, n, x.LastKey[ip])
			}
			if n := o.state[ip]; n != "" {
				return vcore.Failf("c10:freed_while_assigned", "IP %s is free in IPAM but the provider still has it assigned to node %s", ip, n)
			}
		}
	}
	for _, p := range x.livePods() {
		for _, ip := range p.Payload {
			if !inConfig(x.ConfInForce, ip) {
				continue
			}
			if o.everDropped[ip] {
				// the address was taken away from under a running pod by the administrator: it may have served somebody else since
				// (assigned and unassigned for that pod), and the pod-IP sync that re-adopts it for the old holder restores the
				// record, not the provider's assignment
				continue
			}
			if o.state[ip] != p.Node {
				return vcore.Failf("c10:not_on_pod_node", "live pod %s is bound to node %s with IP %s but the provider has it on %q", p.Name,
					p.Node, ip, o.state[ip])
			}
		}
	}
	return nil
}

func (o *ObsC10) AfterOp(x *Exec, i int, op Op, res *OpResult) *vcore.Failure {
	if res.BoundNow && res.Pod != nil {
		if o.boundNode == nil {
			o.boundNode = map[string]string{}
		}
		if prev, ok := o.boundNode[res.Pod.Key]; ok && prev != res.Pod.Node {
			o.Moved = true
		}
		o.boundNode[res.Pod.Key] = res.Pod.Node
	}
	return o.check(x, true)
}
func (o *ObsC10) AfterStep(x *Exec) *vcore.Failure { return o.check(x, false) }
