// Package ipamsim is engine E1: a simulated cluster (API-server truth in fake clientset trackers, separately
// controlled informer views, event queues, a recording cloud provider, fault/crash injection and a cooperative
// scheduler) around the real galaxy-ipam scheduler plugin.
package ipamsim

import (
	"context"
	"encoding/json"
	"fmt"
	"net"
	"runtime"
	"runtime/debug"
	"sort"
	"strings"
	"sync"

	appsv1 "k8s.io/api/apps/v1"
	corev1 "k8s.io/api/core/v1"
	extensionv1 "k8s.io/apiextensions-apiserver/pkg/apis/apiextensions/v1"
	extfake "k8s.io/apiextensions-apiserver/pkg/client/clientset/clientset/fake"
	extlister "k8s.io/apiextensions-apiserver/pkg/client/listers/apiextensions/v1"
	apierrors "k8s.io/apimachinery/pkg/api/errors"
	"k8s.io/apimachinery/pkg/api/resource"
	metav1 "k8s.io/apimachinery/pkg/apis/meta/v1"
	k8sruntime "k8s.io/apimachinery/pkg/runtime"
	"k8s.io/apimachinery/pkg/runtime/schema"
	"k8s.io/apimachinery/pkg/types"
	dynfake "k8s.io/client-go/dynamic/fake"
	k8sfake "k8s.io/client-go/kubernetes/fake"
	appslister "k8s.io/client-go/listers/apps/v1"
	corelister "k8s.io/client-go/listers/core/v1"
	k8stesting "k8s.io/client-go/testing"
	"k8s.io/client-go/tools/cache"
	"tkestack.io/galaxy/pkg/api/galaxy/constant"
	"tkestack.io/galaxy/pkg/api/k8s/schedulerapi"
	"tkestack.io/galaxy/pkg/ipam/apis/galaxy/v1alpha1"
	galaxyfake "tkestack.io/galaxy/pkg/ipam/client/clientset/versioned/fake"
	galaxylister "tkestack.io/galaxy/pkg/ipam/client/listers/galaxy/v1alpha1"
	"tkestack.io/galaxy/pkg/ipam/cloudprovider/rpc"
	ipamcontext "tkestack.io/galaxy/pkg/ipam/context"
	"tkestack.io/galaxy/pkg/ipam/floatingip"
	"tkestack.io/galaxy/pkg/ipam/schedulerplugin"
	putil "tkestack.io/galaxy/pkg/ipam/schedulerplugin/util"
	testhelper "tkestack.io/galaxy/pkg/utils/test"
)

const (
	NS       = "ns0"
	CMName   = "floatingip-config"
	CMNs     = "kube-system"
	CMKey    = "floatingips"
	PoolNs   = "kube-system"
	TAppKind = "Foo" // kind of the scalable custom resource (test CRD "foo" of the repository's helpers)
)

// Fault describes one injected fault on the k-th API-server call issued by galaxy-ipam.
type Fault struct {
	K    int    `json:"k"`    // 1-based index among galaxy-ipam's API calls since the fault was armed
	Mode string `json:"mode"` // error | crash_before | crash_after
	Err  string `json:"err"`  // internal | notfound | conflict | timeout | exists (AlreadyExists on creates, internal otherwise)
}

// APICall is one traced API-server call of galaxy-ipam.
type APICall struct {
	N        int
	Verb     string
	Resource string
	Name     string
	Op       int // index of the op that issued it
}

type cloudCall struct {
	Assign bool
	IP     string
	Node   string
	OK     bool
	Step   int
}

// recCloud is a recording cloud provider whose calls can be made to fail cleanly (no effect).
type recCloud struct {
	w     *World
	mu    sync.Mutex
	calls []cloudCall
	// failNext[i] == true makes the i-th call from now on fail
	failPlan []bool
}

func (c *recCloud) next() bool {
	if len(c.failPlan) == 0 {
		return false
	}
	f := c.failPlan[0]
	c.failPlan = c.failPlan[1:]
	return f
}

func (c *recCloud) AssignIP(in *rpc.AssignIPRequest) (*rpc.AssignIPReply, error) {
	c.w.yield("cloud.assign")
	c.mu.Lock()
	defer c.mu.Unlock()
	fail := c.next()
	c.calls = append(c.calls, cloudCall{Assign: true, IP: in.IPAddress, Node: in.NodeName, OK: !fail, Step: c.w.step})
	if fail {
		return &rpc.AssignIPReply{Success: false, Msg: "injected failure"}, nil
	}
	return &rpc.AssignIPReply{Success: true}, nil
}

func (c *recCloud) UnAssignIP(in *rpc.UnAssignIPRequest) (*rpc.UnAssignIPReply, error) {
	c.w.yield("cloud.unassign")
	c.mu.Lock()
	defer c.mu.Unlock()
	fail := c.next()
	c.calls = append(c.calls, cloudCall{Assign: false, IP: in.IPAddress, Node: in.NodeName, OK: !fail, Step: c.w.step})
	if fail {
		return &rpc.UnAssignIPReply{Success: false, Msg: "injected failure"}, nil
	}
	return &rpc.UnAssignIPReply{Success: true}, nil
}

// fakeCrdCache answers replicas of custom workloads from the harness' table.
type fakeCrdCache struct {
	w *World
}

func (f *fakeCrdCache) GetReplicas(gvr schema.GroupVersionResource, namespace, name string) (int, error) {
	f.w.yield("lister.cr")
	f.w.mu.Lock()
	defer f.w.mu.Unlock()
	f.w.crCalls++
	for _, k := range f.w.CrFail {
		if k == f.w.crCalls {
			f.w.crFailed++
			// the custom resource could not be read (not "not found"): nothing is known about the app
			return 0, apierrors.NewInternalError(fmt.Errorf("injected: replicas of %s/%s unreadable", namespace, name))
		}
	}
	key := gvr.Resource + "/" + namespace + "/" + name
	r, ok := f.w.crView[key]
	if !ok {
		return 0, apierrors.NewNotFound(gvr.GroupResource(), name)
	}
	return r, nil
}

// fipInformerStub captures the handlers NewCrdIPAM registers.
type fipInformerStub struct {
	cache.SharedIndexInformer
	handlers []cache.ResourceEventHandler
}

func (s *fipInformerStub) AddEventHandler(h cache.ResourceEventHandler) {
	s.handlers = append(s.handlers, h)
}

type fipInformer struct{ stub *fipInformerStub }

func (f *fipInformer) Informer() cache.SharedIndexInformer   { return f.stub }
func (f *fipInformer) Lister() galaxylister.FloatingIPLister { return nil }

// PodEvent is a queued informer notification.
type PodEvent struct {
	Kind string // update | delete
	Old  *corev1.Pod
	New  *corev1.Pod
}

// PodRec is the harness' record of one pod incarnation.
type PodRec struct {
	Name           string
	UID            string
	WL             int
	Node           string   // node of the applied binding
	Bound          bool     // binding applied by the API server
	Payload        []string // IPs in the applied binding annotation, in order
	PayloadInfos   []constant.IPInfo
	Filtered       []string // nodes returned by the last successful Filter of this incarnation (nil = none)
	FilterOn       int      // plugin generation the filter ran on
	Deleted        bool
	Phase          corev1.PodPhase
	BoundAt        int // step
	CloudSeqAtBind int
	Key            string
}

func (p *PodRec) Live() bool {
	return !p.Deleted && p.Phase != corev1.PodSucceeded && p.Phase != corev1.PodFailed
}

// World is the simulated cluster.
type World struct {
	mu sync.Mutex // protects harness tables touched from plugin goroutines (crView, traces)

	Kube   *k8sfake.Clientset
	Galaxy *galaxyfake.Clientset
	Ext    *extfake.Clientset

	podIdx, nodeIdx, stsIdx, dpIdx, poolIdx, crdIdx cache.Indexer
	crTruth, crView                                 map[string]int

	Plugin    *schedulerplugin.FloatingIPPlugin
	PluginGen int
	fipStub   *fipInformerStub
	Cloud     *recCloud
	UseCloud  bool

	Topo     Topo
	ConfText string

	// informer model for pods: q1 = deltas not yet applied to the lister, q2 = notifications not yet handled
	Lag      bool
	q1       []PodEvent
	applied  []PodEvent // every event the pod cache has applied so far, in order (a stale restart rebuilds the cache from a prefix)
	q2       []PodEvent
	Pending  []*pendingUnbind // unbind work popped from the plugin's channel
	lagOther bool

	Pods    map[string]*PodRec // live record per pod name (latest incarnation)
	AllPods []*PodRec
	uidSeq  int

	// fault injection / tracing of galaxy-ipam's API calls
	inOp         bool
	curOp        int
	callNo       int
	Trace        []APICall
	FullTrace    []APICall // every API call of galaxy-ipam over the whole history (k = index within its op)
	opCallNo     int
	lastTraceOp  int
	fault        *Fault
	CrFail       []int // 1-based indexes of custom-resource replica lookups that fail (not with NotFound)
	crCalls      int
	crFailed     int // number of injected lookup failures so far
	faultHit     bool
	faultHitEver bool
	crashed      bool

	// scheduler hook (nil in sequential mode)
	sched *Scheduler
	step  int

	// binding log
	Bindings []BindingRec

	// watch events of labelled (administrator reserved) FloatingIP objects not yet delivered to the IPAM handlers
	FipEvents []FipEvent
}

type FipEvent struct {
	Add bool
	Obj *v1alpha1.FloatingIP
}

type BindingRec struct {
	Pod, UID, Node string
	IPs            []string
	Step           int
}

type pendingUnbind struct {
	pod   *corev1.Pod
	retry int
}

func eniPodSpec() corev1.PodSpec {
	q := resource.NewQuantity(1, resource.DecimalSI)
	return corev1.PodSpec{Containers: []corev1.Container{{Name: "c", Resources: corev1.ResourceRequirements{
		Requests: corev1.ResourceList{corev1.ResourceName(constant.ResourceName): *q},
		Limits:   corev1.ResourceList{corev1.ResourceName(constant.ResourceName): *q}}}}}
}

func newIndexer() cache.Indexer {
	return cache.NewIndexer(cache.MetaNamespaceKeyFunc, cache.Indexers{cache.NamespaceIndex: cache.MetaNamespaceIndexFunc})
}

// yieldingPodLister etc. wrap listers so that every lister read is a yield point of the cooperative scheduler.
type yPodLister struct {
	corelister.PodLister
	w *World
}

func (l yPodLister) Pods(ns string) corelister.PodNamespaceLister {
	l.w.yield("lister.pods")
	return yPodNsLister{l.PodLister.Pods(ns), l.w}
}

// yPodNsLister adds a second yield point right AFTER a pod was read from the cache: what the caller does next (typically taking
// the pod lock) is then a separate step, so that "checked the cache, then another request ran, then acted" is a schedule.
type yPodNsLister struct {
	corelister.PodNamespaceLister
	w *World
}

func (l yPodNsLister) Get(name string) (*corev1.Pod, error) {
	p, err := l.PodNamespaceLister.Get(name)
	l.w.yield("lister.pods.read")
	return p, err
}

type yStsLister struct {
	appslister.StatefulSetLister
	w *World
}

func (l yStsLister) StatefulSets(ns string) appslister.StatefulSetNamespaceLister {
	l.w.yield("lister.sts")
	return l.StatefulSetLister.StatefulSets(ns)
}

type yDpLister struct {
	appslister.DeploymentLister
	w *World
}

func (l yDpLister) Deployments(ns string) appslister.DeploymentNamespaceLister {
	l.w.yield("lister.dp")
	return l.DeploymentLister.Deployments(ns)
}

type yPoolLister struct {
	galaxylister.PoolLister
	w *World
}

func (l yPoolLister) Pools(ns string) galaxylister.PoolNamespaceLister {
	l.w.yield("lister.pool")
	return l.PoolLister.Pools(ns)
}

// NewWorld builds trackers, listers and the first plugin instance.
func NewWorld(topo Topo, useCloud bool, lag bool) (*World, error) {
	w := &World{Topo: topo, UseCloud: useCloud, Lag: lag, Pods: map[string]*PodRec{}, lastTraceOp: -1,
		crTruth: map[string]int{}, crView: map[string]int{}}
	w.Kube = k8sfake.NewSimpleClientset()
	w.Galaxy = galaxyfake.NewSimpleClientset()
	w.Ext = extfake.NewSimpleClientset()
	w.podIdx, w.nodeIdx, w.stsIdx, w.dpIdx, w.poolIdx, w.crdIdx = newIndexer(), newIndexer(), newIndexer(), newIndexer(),
		newIndexer(), newIndexer()
	w.Cloud = &recCloud{w: w}
	for _, cs := range []*k8stesting.Fake{&w.Kube.Fake, &w.Galaxy.Fake, &w.Ext.Fake} {
		cs.PrependReactor("*", "*", w.react)
	}
	// CRDs: a scalable one (kind Foo) and a not scalable one (kind NotScalable)
	for _, crd := range []*extensionv1.CustomResourceDefinition{testhelper.FooCrd, testhelper.NotScalableCrd} {
		_ = w.crdIdx.Add(crd.DeepCopy())
	}
	w.ConfText = topo.ConfigText()
	cm := &corev1.ConfigMap{ObjectMeta: metav1.ObjectMeta{Name: CMName, Namespace: CMNs}, Data: map[string]string{CMKey: w.ConfText}}
	if err := w.Kube.Tracker().Add(cm); err != nil {
		return nil, err
	}
	for _, n := range topo.Nodes {
		node := n.Object()
		if err := w.Kube.Tracker().Add(node); err != nil {
			return nil, err
		}
		_ = w.nodeIdx.Add(node)
	}
	if err := w.StartPlugin(); err != nil {
		return nil, err
	}
	return w, nil
}

// StartPlugin builds a fresh plugin instance over the same store ("restart").
func (w *World) StartPlugin() error {
	w.fipStub = &fipInformerStub{}
	ctx := &ipamcontext.IPAMContext{
		Client:            yKube{w.Kube, w},
		GalaxyClient:      yGalaxy{w.Galaxy, w},
		ExtClient:         w.Ext,
		DynamicClient:     dynfake.NewSimpleDynamicClient(k8sruntime.NewScheme()),
		PodLister:         yPodLister{corelister.NewPodLister(w.podIdx), w},
		NodeLister:        corelister.NewNodeLister(w.nodeIdx),
		StatefulSetLister: yStsLister{appslister.NewStatefulSetLister(w.stsIdx), w},
		DeploymentLister:  yDpLister{appslister.NewDeploymentLister(w.dpIdx), w},
		PoolLister:        yPoolLister{galaxylister.NewPoolLister(w.poolIdx), w},
		ExtensionLister:   extlister.NewCustomResourceDefinitionLister(w.crdIdx),
		FIPInformer:       &fipInformer{w.fipStub},
	}
	p, err := schedulerplugin.NewFloatingIPPlugin(schedulerplugin.Conf{}, ctx)
	if err != nil {
		return err
	}
	p.VerifSetCrdCache(&fakeCrdCache{w})
	if w.UseCloud {
		p.VerifSetCloudProvider(w.Cloud)
	}
	p.VerifWrapIPAM(func(in floatingip.IPAM) floatingip.IPAM { return &yieldIPAM{IPAM: in, w: w} })
	w.Plugin = p
	w.PluginGen++
	w.crashed = false
	// Init: configmap based; one updateConfigMap pass (Init polls once per second until it succeeds)
	var ierr error
	w.runOp(func() {
		_, ierr = p.VerifUpdateConfigMap()
	})
	return ierr
}

// runOp runs f as an operation of galaxy-ipam in its own goroutine (so that an injected crash can end it with
// runtime.Goexit) and waits for it.
func (w *World) runOp(f func()) (crashed bool) {
	done := make(chan struct{})
	w.inOp = true
	var pv interface{}
	var pstack []byte
	go func() {
		defer close(done)
		defer func() {
			if r := recover(); r != nil {
				pv, pstack = r, debug.Stack()
			}
		}()
		f()
	}()
	<-done
	w.inOp = false
	if pv != nil {
		// a panic of the code under test: re-raise it in the caller's goroutine, where the property runner turns it into a failure
		panic(fmt.Sprintf("%v\n%s", pv, pstack))
	}
	return w.crashed
}

func (w *World) errFor(kind string, action k8stesting.Action) error {
	gr := action.GetResource().GroupResource()
	switch kind {
	case "notfound":
		return apierrors.NewNotFound(gr, "injected")
	case "conflict":
		return apierrors.NewConflict(gr, "injected", fmt.Errorf("injected conflict"))
	case "timeout":
		return apierrors.NewServerTimeout(gr, action.GetVerb(), 1)
	case "exists":
		// (what a create answers when somebody else created the object first, e.g. an administrator's reservation not yet seen)
		if action.GetVerb() == "create" {
			return apierrors.NewAlreadyExists(gr, "injected")
		}
	}
	return apierrors.NewInternalError(fmt.Errorf("injected internal error"))
}

func actionName(a k8stesting.Action) string {
	switch t := a.(type) {
	case k8stesting.GetAction:
		return t.GetName()
	case k8stesting.DeleteAction:
		return t.GetName()
	case k8stesting.CreateAction:
		if m, ok := t.GetObject().(metav1.Object); ok {
			return m.GetName()
		}
	case k8stesting.UpdateAction:
		if m, ok := t.GetObject().(metav1.Object); ok {
			return m.GetName()
		}
	}
	return ""
}

// react is prepended to every fake clientset: tracing, yield point, fault injection, and the pods/binding
// subresource semantics of the real API server.
func (w *World) react(action k8stesting.Action) (bool, k8sruntime.Object, error) {
	res := action.GetResource().Resource
	if action.GetSubresource() != "" {
		res += "/" + action.GetSubresource()
	}
	w.mu.Lock()
	w.callNo++
	n := w.callNo
	w.Trace = append(w.Trace, APICall{N: n, Verb: action.GetVerb(), Resource: res, Name: actionName(action), Op: w.curOp})
	if w.curOp != w.lastTraceOp {
		w.lastTraceOp = w.curOp
		w.opCallNo = 0
	}
	w.opCallNo++
	w.FullTrace = append(w.FullTrace, APICall{N: w.opCallNo, Verb: action.GetVerb(), Resource: res, Name: actionName(action), Op: w.curOp})
	f := w.fault
	hit := f != nil && !w.faultHit && f.K == n
	if hit {
		w.faultHit = true
		w.faultHitEver = true
	}
	w.mu.Unlock()
	if hit {
		switch f.Mode {
		case "error":
			return true, nil, w.errFor(f.Err, action)
		case "crash_before":
			w.crashed = true
			runtime.Goexit()
		case "crash_after":
			w.applyDirect(action)
			w.crashed = true
			runtime.Goexit()
		}
	}
	if action.GetVerb() == "delete" && res == "floatingips" {
		if da, ok := action.(k8stesting.DeleteAction); ok {
			if obj, err := w.Galaxy.Tracker().Get(fipGVR, "", da.GetName()); err == nil {
				if f, ok := obj.(*v1alpha1.FloatingIP); ok {
					if _, labelled := f.Labels[constant.ReserveFIPLabel]; labelled {
						w.mu.Lock()
						w.FipEvents = append(w.FipEvents, FipEvent{false, f})
						w.mu.Unlock()
					}
				}
			}
		}
	}
	if action.GetVerb() == "create" && res == "pods/binding" {
		ca := action.(k8stesting.CreateAction)
		b := ca.GetObject().(*corev1.Binding)
		return true, b, w.applyBinding(action.GetNamespace(), b)
	}
	return false, nil, nil
}

func (w *World) trackerFor(action k8stesting.Action) k8stesting.ObjectTracker {
	switch action.GetResource().Group {
	case "galaxy.k8s.io":
		return w.Galaxy.Tracker()
	case "apiextensions.k8s.io":
		return w.Ext.Tracker()
	}
	return w.Kube.Tracker()
}

// applyDirect applies an action to the truth (used for crash-after).
func (w *World) applyDirect(action k8stesting.Action) {
	res := action.GetResource().Resource
	if action.GetVerb() == "create" && res == "pods" && action.GetSubresource() == "binding" {
		b := action.(k8stesting.CreateAction).GetObject().(*corev1.Binding)
		_ = w.applyBinding(action.GetNamespace(), b)
		return
	}
	_, _, _ = k8stesting.ObjectReaction(w.trackerFor(action))(action)
}

// applyBinding does what the API server does for POST pods/<name>/binding.
func (w *World) applyBinding(ns string, b *corev1.Binding) error {
	gvr := corev1.SchemeGroupVersion.WithResource("pods")
	obj, err := w.Kube.Tracker().Get(gvr, ns, b.Name)
	if err != nil {
		return err
	}
	pod := obj.(*corev1.Pod).DeepCopy()
	if b.UID != "" && b.UID != pod.UID {
		return apierrors.NewConflict(gvr.GroupResource(), b.Name, fmt.Errorf("uid precondition failed"))
	}
	if pod.Spec.NodeName != "" {
		return apierrors.NewConflict(gvr.GroupResource(), b.Name, fmt.Errorf("pod is already assigned to node %q", pod.Spec.NodeName))
	}
	old := pod.DeepCopy()
	pod.Spec.NodeName = b.Target.Name
	if pod.Annotations == nil {
		pod.Annotations = map[string]string{}
	}
	for k, v := range b.Annotations {
		pod.Annotations[k] = v
	}
	if err := w.Kube.Tracker().Update(gvr, pod, ns); err != nil {
		return err
	}
	w.mu.Lock()
	defer w.mu.Unlock()
	rec := w.Pods[b.Name]
	if rec != nil && rec.UID == string(pod.UID) {
		rec.Bound = true
		rec.Node = b.Target.Name
		rec.BoundAt = w.step
		w.Cloud.mu.Lock()
		rec.CloudSeqAtBind = len(w.Cloud.calls)
		w.Cloud.mu.Unlock()
		rec.Payload = nil
		rec.PayloadInfos = nil
		if args, err := constant.UnmarshalCniArgs(b.Annotations[constant.ExtendedCNIArgsAnnotation]); err == nil && args != nil {
			for _, info := range args.Common.IPInfos {
				if info.IP != nil {
					rec.Payload = append(rec.Payload, info.IP.IP.String())
				}
			}
			rec.PayloadInfos = args.Common.IPInfos
		}
		w.Bindings = append(w.Bindings, BindingRec{Pod: b.Name, UID: rec.UID, Node: rec.Node, IPs: append([]string{}, rec.Payload...), Step: w.step})
	}
	w.podChangedLocked(old, pod)
	return nil
}

func (w *World) yield(point string) {
	if s := w.sched; s != nil {
		s.yield(point)
	}
}

// ---------- truth manipulation by the harness ----------

var podGVR = corev1.SchemeGroupVersion.WithResource("pods")

func (w *World) truthPod(name string) *corev1.Pod {
	obj, err := w.Kube.Tracker().Get(podGVR, NS, name)
	if err != nil {
		return nil
	}
	return obj.(*corev1.Pod)
}

// podChangedLocked records a truth change of a pod in the informer model. w.mu must be held.
func (w *World) podChangedLocked(old, cur *corev1.Pod) {
	ev := PodEvent{Kind: "update", Old: old, New: cur}
	if cur == nil {
		ev.Kind = "delete"
	} else if old == nil {
		ev.Kind = "add"
	}
	w.q1 = append(w.q1, ev)
	if !w.Lag {
		w.syncPodListerLocked(len(w.q1))
	}
}

// syncPodListerLocked applies up to n deltas to the pod lister and queues their notifications.
func (w *World) syncPodListerLocked(n int) int {
	done := 0
	for done < n && len(w.q1) > 0 {
		ev := w.q1[0]
		w.q1 = w.q1[1:]
		switch ev.Kind {
		case "add", "update":
			_ = w.podIdx.Update(ev.New)
		case "delete":
			_ = w.podIdx.Delete(ev.Old)
		}
		if ev.Kind != "add" { // AddPod does nothing in galaxy-ipam
			w.q2 = append(w.q2, ev)
		}
		w.applied = append(w.applied, ev)
		done++
	}
	return done
}

func (w *World) SyncPodLister(n int) int {
	w.mu.Lock()
	defer w.mu.Unlock()
	return w.syncPodListerLocked(n)
}

func (w *World) newUID() string {
	w.uidSeq++
	return fmt.Sprintf("uid-%d", w.uidSeq)
}

// CreatePod creates a new incarnation of the named pod of workload wl (no-op if it exists).
func (w *World) CreatePod(wlIdx int, wl *WL, name string) *PodRec {
	if w.truthPod(name) != nil {
		return nil
	}
	pod := &corev1.Pod{ObjectMeta: metav1.ObjectMeta{Name: name, Namespace: NS, UID: types.UID(w.newUID()),
		Labels: map[string]string{"app": wl.Name}, Annotations: wl.PodAnnotations()}, Spec: eniPodSpec()}
	pod.OwnerReferences = wl.OwnerRefs()
	pod.Status.Phase = corev1.PodPending
	if err := w.Kube.Tracker().Add(pod); err != nil {
		panic(err)
	}
	keyObj, _ := putil.FormatKey(pod)
	rec := &PodRec{Name: name, UID: string(pod.UID), WL: wlIdx, Phase: corev1.PodPending}
	if keyObj != nil {
		rec.Key = keyObj.KeyInDB
	}
	w.mu.Lock()
	w.Pods[name] = rec
	w.AllPods = append(w.AllPods, rec)
	w.podChangedLocked(nil, pod)
	w.mu.Unlock()
	return rec
}

func (w *World) SetPhase(name string, phase corev1.PodPhase) bool {
	old := w.truthPod(name)
	if old == nil {
		return false
	}
	cur := old.DeepCopy()
	cur.Status.Phase = phase
	if err := w.Kube.Tracker().Update(podGVR, cur, NS); err != nil {
		panic(err)
	}
	w.mu.Lock()
	if rec := w.Pods[name]; rec != nil {
		rec.Phase = phase
	}
	w.podChangedLocked(old, cur)
	w.mu.Unlock()
	return true
}

// SetTerminating marks the pod as being deleted gracefully: the API server sets the deletion timestamp, the pod keeps running (and
// keeps its address) until the kubelet has stopped it and the object is really removed.
func (w *World) SetTerminating(name string) bool {
	old := w.truthPod(name)
	if old == nil || old.DeletionTimestamp != nil {
		return false
	}
	cur := old.DeepCopy()
	now := metav1.Now()
	cur.DeletionTimestamp = &now
	secs := int64(30)
	cur.DeletionGracePeriodSeconds = &secs
	if err := w.Kube.Tracker().Update(podGVR, cur, NS); err != nil {
		panic(err)
	}
	w.mu.Lock()
	w.podChangedLocked(old, cur)
	w.mu.Unlock()
	return true
}

func (w *World) DeletePod(name string) bool {
	old := w.truthPod(name)
	if old == nil {
		return false
	}
	if err := w.Kube.Tracker().Delete(podGVR, NS, name); err != nil {
		panic(err)
	}
	w.mu.Lock()
	if rec := w.Pods[name]; rec != nil {
		rec.Deleted = true
	}
	w.podChangedLocked(old, nil)
	w.mu.Unlock()
	return true
}

// ---------- workloads ----------

var (
	stsGVR  = appsv1.SchemeGroupVersion.WithResource("statefulsets")
	dpGVR   = appsv1.SchemeGroupVersion.WithResource("deployments")
	poolGVR = v1alpha1.SchemeGroupVersion.WithResource("pools")
	fipGVR  = v1alpha1.SchemeGroupVersion.WithResource("floatingips")
	cmGVR   = corev1.SchemeGroupVersion.WithResource("configmaps")
)

// SetWorkload creates/updates (replicas >= 0) or deletes (replicas < 0) the workload object, in truth and,
// unless lagOther is set, in the lister view.
func (w *World) SetWorkload(wl *WL, replicas int) {
	r32 := int32(replicas)
	switch wl.Kind {
	case "sts":
		if replicas < 0 {
			_ = w.Kube.Tracker().Delete(stsGVR, NS, wl.Name)
			if obj, ok, _ := w.stsIdx.GetByKey(NS + "/" + wl.Name); ok {
				_ = w.stsIdx.Delete(obj)
			}
			return
		}
		o := &appsv1.StatefulSet{ObjectMeta: metav1.ObjectMeta{Name: wl.Name, Namespace: NS}, Spec: appsv1.StatefulSetSpec{Replicas: &r32}}
		if wl.Unset && replicas == 1 {
			o.Spec.Replicas = nil // the field left out: one replica
		}
		if w.Kube.Tracker().Update(stsGVR, o, NS) != nil {
			_ = w.Kube.Tracker().Add(o)
		}
		_ = w.stsIdx.Update(o)
	case "dp":
		if replicas < 0 {
			_ = w.Kube.Tracker().Delete(dpGVR, NS, wl.Name)
			if obj, ok, _ := w.dpIdx.GetByKey(NS + "/" + wl.Name); ok {
				_ = w.dpIdx.Delete(obj)
			}
			return
		}
		o := &appsv1.Deployment{ObjectMeta: metav1.ObjectMeta{Name: wl.Name, Namespace: NS}, Spec: appsv1.DeploymentSpec{Replicas: &r32}}
		if wl.Unset && replicas == 1 {
			o.Spec.Replicas = nil
		}
		if w.Kube.Tracker().Update(dpGVR, o, NS) != nil {
			_ = w.Kube.Tracker().Add(o)
		}
		_ = w.dpIdx.Update(o)
	case "cr", "nscr":
		plural := testhelper.FooCrd.Spec.Names.Plural
		if wl.Kind == "nscr" {
			plural = testhelper.NotScalableCrd.Spec.Names.Plural
		}
		key := plural + "/" + NS + "/" + wl.Name
		w.mu.Lock()
		if replicas < 0 {
			delete(w.crTruth, key)
			delete(w.crView, key)
		} else {
			w.crTruth[key] = replicas
			w.crView[key] = replicas
		}
		w.mu.Unlock()
	}
}

func replOr1(p *int32) int {
	if p == nil {
		return 1
	}
	return int(*p)
}

// WorkloadView returns (exists, replicas) as the listers currently show it.
func (w *World) WorkloadView(wl *WL) (bool, int) {
	switch wl.Kind {
	case "sts":
		if obj, ok, _ := w.stsIdx.GetByKey(NS + "/" + wl.Name); ok {
			return true, replOr1(obj.(*appsv1.StatefulSet).Spec.Replicas)
		}
	case "dp":
		if obj, ok, _ := w.dpIdx.GetByKey(NS + "/" + wl.Name); ok {
			return true, replOr1(obj.(*appsv1.Deployment).Spec.Replicas)
		}
	case "cr", "nscr":
		plural := testhelper.FooCrd.Spec.Names.Plural
		if wl.Kind == "nscr" {
			plural = testhelper.NotScalableCrd.Spec.Names.Plural
		}
		w.mu.Lock()
		defer w.mu.Unlock()
		if r, ok := w.crView[plural+"/"+NS+"/"+wl.Name]; ok {
			return true, r
		}
	}
	return false, 0
}

// SetPool creates/updates (size >= 0) or deletes the Pool object directly (as kubectl would).
func (w *World) SetPool(name string, size int) {
	if size < 0 {
		_ = w.Galaxy.Tracker().Delete(poolGVR, PoolNs, name)
		if obj, ok, _ := w.poolIdx.GetByKey(PoolNs + "/" + name); ok {
			_ = w.poolIdx.Delete(obj)
		}
		return
	}
	o := &v1alpha1.Pool{TypeMeta: metav1.TypeMeta{Kind: "Pool", APIVersion: "v1alpha1"},
		ObjectMeta: metav1.ObjectMeta{Name: name, Namespace: PoolNs}, Size: size}
	if w.Galaxy.Tracker().Update(poolGVR, o, PoolNs) != nil {
		_ = w.Galaxy.Tracker().Add(o)
	}
	_ = w.poolIdx.Update(o)
}

// SyncPoolLister copies the Pool objects of the truth into the lister (after an API create/update).
func (w *World) SyncPoolLister() {
	for _, k := range w.poolIdx.ListKeys() {
		if obj, ok, _ := w.poolIdx.GetByKey(k); ok {
			_ = w.poolIdx.Delete(obj)
		}
	}
	list, err := w.Galaxy.Tracker().List(poolGVR, v1alpha1.SchemeGroupVersion.WithKind("Pool"), PoolNs)
	if err != nil {
		return
	}
	for i := range list.(*v1alpha1.PoolList).Items {
		_ = w.poolIdx.Add(&list.(*v1alpha1.PoolList).Items[i])
	}
}

func (w *World) PoolSizeTruth(name string) (int, bool) {
	obj, err := w.Galaxy.Tracker().Get(poolGVR, PoolNs, name)
	if err != nil {
		return 0, false
	}
	return obj.(*v1alpha1.Pool).Size, true
}

func (w *World) PoolSizeView(name string) (int, bool) {
	obj, ok, _ := w.poolIdx.GetByKey(PoolNs + "/" + name)
	if !ok {
		return 0, false
	}
	return obj.(*v1alpha1.Pool).Size, true
}

// SetConfig writes a new configuration text to the ConfigMap (truth).
func (w *World) SetConfig(text string) {
	cm := &corev1.ConfigMap{ObjectMeta: metav1.ObjectMeta{Name: CMName, Namespace: CMNs}, Data: map[string]string{CMKey: text}}
	if err := w.Kube.Tracker().Update(cmGVR, cm, CMNs); err != nil {
		panic(err)
	}
}

// ---------- store access ----------

type StoreFIP struct {
	IP       string
	Key      string
	Policy   uint16
	NodeName string
	UID      string
	Reserved bool
}

func (w *World) StoreList() map[string]StoreFIP {
	out := map[string]StoreFIP{}
	obj, err := w.Galaxy.Tracker().List(fipGVR, v1alpha1.SchemeGroupVersion.WithKind("FloatingIP"), "")
	if err != nil {
		panic(err)
	}
	for _, f := range obj.(*v1alpha1.FloatingIPList).Items {
		s := StoreFIP{IP: f.Name, Key: f.Spec.Key, Policy: uint16(f.Spec.Policy)}
		var attr floatingip.Attr
		if f.Spec.Attribute != "" {
			_ = json.Unmarshal([]byte(f.Spec.Attribute), &attr)
		}
		s.NodeName, s.UID = attr.NodeName, attr.Uid
		_, s.Reserved = f.Labels[constant.ReserveFIPLabel]
		out[f.Name] = s
	}
	return out
}

// Tables dumps the in-memory tables of the real IPAM.
func (w *World) Tables() (alloc, unalloc map[string]floatingip.FloatingIP) {
	ip := w.Plugin.GetIpam()
	if y, ok := ip.(*yieldIPAM); ok {
		ip = y.IPAM
	}
	a, u, _ := floatingip.VerifTables(ip)
	return a, u
}

// TryTables is Tables without blocking on the cache lock (ok=false while a writer holds it).
func (w *World) TryTables() (alloc, unalloc map[string]floatingip.FloatingIP, ok bool) {
	ip := w.Plugin.GetIpam()
	if y, isY := ip.(*yieldIPAM); isY {
		ip = y.IPAM
	}
	return floatingip.VerifTryTables(ip)
}

// AddReserved creates a labelled FloatingIP as an administrator would (truth only); the watch event is delivered
// separately.
func (w *World) AddReserved(ip string) error {
	f := &v1alpha1.FloatingIP{TypeMeta: metav1.TypeMeta{Kind: constant.ResourceKind, APIVersion: constant.ApiVersion},
		ObjectMeta: metav1.ObjectMeta{Name: ip, Labels: map[string]string{constant.ReserveFIPLabel: ""}},
		Spec:       v1alpha1.FloatingIPSpec{Key: "admin-reserved", Policy: constant.ReleasePolicyNever}}
	return w.Galaxy.Tracker().Add(f)
}

func (w *World) DelReserved(ip string) error {
	return w.Galaxy.Tracker().Delete(fipGVR, "", ip)
}

// DeliverFIPEvent delivers an add/delete watch event of a FloatingIP object to the handlers of the running IPAM.
func (w *World) DeliverFIPEvent(add bool, obj *v1alpha1.FloatingIP) {
	for _, h := range w.fipStub.handlers {
		if add {
			h.OnAdd(obj)
		} else {
			h.OnDelete(obj)
		}
	}
}

// ---------- galaxy-ipam operations ----------

// Filter calls the real Filter with the given candidate nodes.
func (w *World) Filter(name string, cands []string) (nodes []string, failed schedulerapi.FailedNodesMap, err error, crashed bool) {
	pod := w.truthPod(name)
	if pod == nil {
		return nil, nil, fmt.Errorf("no pod"), false
	}
	var ns []corev1.Node
	for _, c := range cands {
		for _, n := range w.Topo.Nodes {
			if n.Name == c {
				ns = append(ns, *n.Object())
			}
		}
	}
	crashed = w.runOp(func() {
		var out []corev1.Node
		out, failed, err = w.Plugin.Filter(pod.DeepCopy(), ns)
		for _, n := range out {
			nodes = append(nodes, n.Name)
		}
	})
	return
}

// Bind calls the real Bind.
func (w *World) Bind(name, uid, node string) (err error, crashed bool) {
	crashed = w.runOp(func() {
		err = w.Plugin.Bind(&schedulerapi.ExtenderBindingArgs{PodName: name, PodNamespace: NS, PodUID: types.UID(uid), Node: node})
	})
	return
}

// DeliverEvent hands the oldest pending notification to the plugin's handlers and collects the unbind work the
// handler queued.
func (w *World) DeliverEvent(drop bool) (bool, bool) {
	w.mu.Lock()
	if len(w.q2) == 0 {
		if w.syncPodListerLocked(1) == 0 || len(w.q2) == 0 {
			w.mu.Unlock()
			return false, false
		}
	}
	ev := w.q2[0]
	w.q2 = w.q2[1:]
	w.mu.Unlock()
	if drop {
		return true, false
	}
	crashed := w.runOp(func() {
		if ev.Kind == "update" {
			_ = w.Plugin.UpdatePod(ev.Old, ev.New)
		} else {
			_ = w.Plugin.DeletePod(ev.Old)
		}
	})
	if !crashed {
		w.CollectUnreleased()
	}
	return true, crashed
}

func (w *World) CollectUnreleased() {
	for {
		p := w.Plugin.VerifPopUnreleased()
		if p == nil {
			return
		}
		w.Pending = append(w.Pending, &pendingUnbind{pod: p})
	}
}

// RunUnbind executes pending unbind i the way event.go's loop does (re-queue on error, give up after 3 retries).
func (w *World) RunUnbind(i int) (ran bool, err error, crashed bool) {
	if len(w.Pending) == 0 {
		return false, nil, false
	}
	i = i % len(w.Pending)
	pu := w.Pending[i]
	w.Pending = append(w.Pending[:i:i], w.Pending[i+1:]...)
	crashed = w.runOp(func() {
		err = w.Plugin.VerifUnbind(pu.pod)
	})
	if crashed {
		return true, nil, true
	}
	if err != nil {
		pu.retry++
		if pu.retry <= 3 {
			w.Pending = append(w.Pending, pu)
		}
	}
	return true, err, false
}

func (w *World) Resync() (err error, crashed bool) {
	crashed = w.runOp(func() { err = w.Plugin.VerifResyncPod() })
	return
}

func (w *World) SyncPodIPs() (crashed bool) {
	return w.runOp(func() { w.Plugin.VerifSyncPodIPs() })
}

func (w *World) Reload() (updated bool, err error, crashed bool) {
	crashed = w.runOp(func() { updated, err = w.Plugin.VerifUpdateConfigMap() })
	return
}

// Restart discards the plugin (and everything queued inside the old process) and starts a new one.
func (w *World) Restart() error {
	w.mu.Lock()
	w.syncPodListerLocked(len(w.q1)) // a fresh informer lists the current state
	w.q2 = nil
	w.mu.Unlock()
	w.Pending = nil
	for _, p := range w.AllPods {
		p.Filtered = nil
	}
	w.fault = nil
	w.FipEvents = nil // a fresh informer lists the store; the new IPAM reads it in ConfigurePool
	return w.StartPlugin()
}

// RestartStale is a restart (or a leader change) whose fresh pod informer is served from a lagging watch cache of the API server:
// the pod cache of the new instance is as far behind as the old one was; the IPAM state is read from the store as always.
func (w *World) RestartStale(back int) error {
	w.mu.Lock()
	w.q2 = nil // the new informer has no backlog of handler notifications; what it has not seen yet arrives as it catches up
	// the list the new informer starts from may even be OLDER than what the previous instance had seen: take the last `back` cache
	// updates back (the cache is rebuilt from the applied history) and let them arrive again later
	if back > len(w.applied) {
		back = len(w.applied)
	}
	if back > 0 {
		keep := w.applied[:len(w.applied)-back]
		redo := append([]PodEvent{}, w.applied[len(w.applied)-back:]...)
		_ = w.podIdx.Replace(nil, "")
		for _, ev := range keep {
			switch ev.Kind {
			case "add", "update":
				_ = w.podIdx.Update(ev.New)
			case "delete":
				_ = w.podIdx.Delete(ev.Old)
			}
		}
		w.applied = append([]PodEvent{}, keep...)
		w.q1 = append(redo, w.q1...)
	}
	w.mu.Unlock()
	w.Pending = nil
	for _, p := range w.AllPods {
		p.Filtered = nil
	}
	w.fault = nil
	w.FipEvents = nil
	return w.StartPlugin()
}

// ArmFault arms a fault relative to the current call counter.
func (w *World) ArmFault(f *Fault) {
	w.mu.Lock()
	defer w.mu.Unlock()
	w.callNo = 0
	w.Trace = nil
	w.fault = f
	w.faultHit = false
}

func (w *World) FaultHit() bool { return w.faultHit }

// ---------- helpers ----------

func SortedKeys(m map[string]floatingip.FloatingIP) []string {
	var ks []string
	for k := range m {
		ks = append(ks, k)
	}
	sort.Slice(ks, func(i, j int) bool { return ipLess(ks[i], ks[j]) })
	return ks
}

func ipLess(a, b string) bool {
	x, y := net.ParseIP(a).To4(), net.ParseIP(b).To4()
	if x == nil || y == nil {
		return a < b
	}
	for i := 0; i < 4; i++ {
		if x[i] != y[i] {
			return x[i] < y[i]
		}
	}
	return false
}

// DumpState renders IPAM memory for traces.
func (w *World) DumpState() string {
	a, u := w.Tables()
	var sb strings.Builder
	for _, k := range SortedKeys(a) {
		f := a[k]
		fmt.Fprintf(&sb, "%s=%s(p%d,n=%s,u=%s) ", k, f.Key, f.Policy, f.NodeName, f.PodUid)
	}
	fmt.Fprintf(&sb, "| free=%d", len(u))
	return sb.String()
}

var _ = context.TODO

func bindArgs(p *PodRec, node string) *schedulerapi.ExtenderBindingArgs {
	return &schedulerapi.ExtenderBindingArgs{PodName: p.Name, PodNamespace: NS, PodUID: types.UID(p.UID), Node: node}
}

// TruthPod returns the pod object of the API-server truth.
func (w *World) TruthPod(name string) *corev1.Pod { return w.truthPod(name) }

// EniPodSpec is a pod spec requesting the floating-IP resource.
func EniPodSpec() corev1.PodSpec { return eniPodSpec() }

// InjectPod puts an arbitrary pod object into truth and lister (used by the robustness checks).
func (w *World) InjectPod(pod *corev1.Pod) {
	if w.Kube.Tracker().Add(pod) != nil {
		_ = w.Kube.Tracker().Update(podGVR, pod, pod.Namespace)
	}
	_ = w.podIdx.Update(pod)
}

// RunGuarded runs f as a galaxy-ipam operation (own goroutine, waits for it).
func (w *World) RunGuarded(f func()) { w.runOp(f) }
