package ipamsim

import (
	"bytes"
	"context"
	"fmt"
	"net"
	"runtime"
	"runtime/debug"
	"strconv"
	"strings"
	"sync"
	"sync/atomic"
	"time"

	corev1 "k8s.io/api/core/v1"
	metav1 "k8s.io/apimachinery/pkg/apis/meta/v1"
	"k8s.io/apimachinery/pkg/util/sets"
	"k8s.io/client-go/kubernetes"
	corev1client "k8s.io/client-go/kubernetes/typed/core/v1"
	"tkestack.io/galaxy/pkg/ipam/apis/galaxy/v1alpha1"
	galaxyclient "tkestack.io/galaxy/pkg/ipam/client/clientset/versioned"
	galaxyv1 "tkestack.io/galaxy/pkg/ipam/client/clientset/versioned/typed/galaxy/v1alpha1"
	"tkestack.io/galaxy/pkg/ipam/floatingip"
	"tkestack.io/galaxy/pkg/utils/nets"
)

// ---------------- cooperative scheduler ----------------

const (
	tRunning int32 = iota
	tParked
	tDone
)

type task struct {
	id    int
	name  string
	gid   uint64
	state int32
	point string
	wake  chan struct{}
}

// Scheduler serialises a set of goroutines ("tasks") at yield points; the decision list determines which parked
// task proceeds whenever every unfinished task is parked, blocked on a lock, or finished.
type Scheduler struct {
	mu        sync.Mutex
	tasks     []*task
	byGid     map[uint64]*task
	Decisions []int
	pos       int
	// Taken records (choice index, number of choices) per decision, Log the human readable schedule.
	Taken    [][2]int
	Log      []string
	Deadlock bool
	Panics   []string // panics of tasks (code under test), with stacks
	Overlap  int      // number of decisions taken while >= 2 tasks had started and not finished
	onStep   func()
}

func curGid() uint64 {
	var buf [64]byte
	n := runtime.Stack(buf[:], false)
	// "goroutine 123 ["
	s := buf[10:n]
	i := bytes.IndexByte(s, ' ')
	if i < 0 {
		return 0
	}
	g, _ := strconv.ParseUint(string(s[:i]), 10, 64)
	return g
}

func (s *Scheduler) yield(point string) {
	g := curGid()
	s.mu.Lock()
	t := s.byGid[g]
	s.mu.Unlock()
	if t == nil {
		return // not a scheduled task (harness goroutine or helper goroutine of a library)
	}
	t.point = point
	atomic.StoreInt32(&t.state, tParked)
	<-t.wake
}

// blockedGids returns the goroutines currently blocked on a sync primitive.
func blockedGids() map[uint64]string {
	buf := make([]byte, 1<<20)
	n := runtime.Stack(buf, true)
	out := map[uint64]string{}
	for _, blk := range bytes.Split(buf[:n], []byte("\n\n")) {
		if !bytes.HasPrefix(blk, []byte("goroutine ")) {
			continue
		}
		line := blk
		if i := bytes.IndexByte(blk, '\n'); i >= 0 {
			line = blk[:i]
		}
		rest := line[10:]
		i := bytes.IndexByte(rest, ' ')
		if i < 0 {
			continue
		}
		g, _ := strconv.ParseUint(string(rest[:i]), 10, 64)
		st := string(rest[i+1:])
		if strings.HasPrefix(st, "[sync.Mutex.Lock") || strings.HasPrefix(st, "[sync.RWMutex.RLock") ||
			strings.HasPrefix(st, "[sync.RWMutex.Lock") || strings.HasPrefix(st, "[semacquire") ||
			strings.HasPrefix(st, "[sync.Cond.Wait") {
			out[g] = st
		}
	}
	return out
}

// allRunningBlocked reports whether every task in state running is waiting on a sync primitive right now.
func (s *Scheduler) allRunningBlocked() bool {
	bl := blockedGids()
	for _, t := range s.tasks {
		if atomic.LoadInt32(&t.state) == tRunning {
			if _, ok := bl[t.gid]; !ok {
				return false
			}
		}
	}
	return true
}

func (s *Scheduler) anyParked() bool {
	for _, t := range s.tasks {
		if atomic.LoadInt32(&t.state) == tParked {
			return true
		}
	}
	return false
}

// Run executes the functions as concurrent tasks under the decision list and returns when all finished (or a
// deadlock was detected: every unfinished task blocked on a lock, none parked).
func (s *Scheduler) Run(names []string, fns []func()) {
	s.byGid = map[uint64]*task{}
	var wg sync.WaitGroup
	ready := make(chan struct{}, len(fns))
	for i := range fns {
		t := &task{id: i, name: names[i], wake: make(chan struct{}, 1)}
		s.tasks = append(s.tasks, t)
		wg.Add(1)
		fn := fns[i]
		go func() {
			defer wg.Done()
			defer atomic.StoreInt32(&t.state, tDone)
			defer func() {
				// a panic of the code under test inside a concurrent task: keep it, the episode reports it
				if r := recover(); r != nil {
					s.mu.Lock()
					s.Panics = append(s.Panics, fmt.Sprintf("task %s: %v\n%s", t.name, r, debug.Stack()))
					s.mu.Unlock()
				}
			}()
			t.gid = curGid()
			s.mu.Lock()
			s.byGid[t.gid] = t
			s.mu.Unlock()
			ready <- struct{}{}
			s.yield("start")
			fn()
		}()
	}
	for range fns {
		<-ready
	}
	started := map[int]bool{}
	for {
		// wait for a stable configuration
		var parked []*task
		stable := false
		spins := 0
		confirm := 0
		idle := 0
		for !stable {
			parked = parked[:0]
			running := 0
			for _, t := range s.tasks {
				switch atomic.LoadInt32(&t.state) {
				case tParked:
					parked = append(parked, t)
				case tRunning:
					running++
				}
			}
			if running == 0 {
				stable = true
				break
			}
			spins++
			if spins < 200 {
				runtime.Gosched()
				continue
			}
			// a task counts as blocked only if three consecutive snapshots (>= 200us apart) show it waiting on a sync
			// primitive: a goroutine waiting for a briefly held mutex (klog, object tracker) must not look like one
			// that waits for a lock another task holds across a yield point
			if s.allRunningBlocked() {
				confirm++
				if confirm >= 3 {
					parked = parked[:0]
					for _, t := range s.tasks {
						if atomic.LoadInt32(&t.state) == tParked {
							parked = append(parked, t)
						}
					}
					stable = true
					break
				}
				time.Sleep(200 * time.Microsecond)
				continue
			}
			confirm = 0
			// a task is really running (e.g. sleeping in a retry loop): look again later, backing off to 2.5 ms
			if idle < 7 {
				idle++
			}
			time.Sleep(20 * time.Microsecond << uint(idle))
		}
		if s.onStep != nil {
			s.onStep()
		}
		allDone := true
		for _, t := range s.tasks {
			if atomic.LoadInt32(&t.state) != tDone {
				allDone = false
			}
		}
		if allDone {
			break
		}
		if len(parked) == 0 {
			// nothing can be released: before calling it a deadlock, require the configuration to persist for 300 ms
			persisted := true
			for k := 0; k < 300; k++ {
				time.Sleep(time.Millisecond)
				if !s.allRunningBlocked() || s.anyParked() {
					persisted = false
					break
				}
			}
			if !persisted {
				continue
			}
			s.Deadlock = true
			var sb strings.Builder
			for _, t := range s.tasks {
				fmt.Fprintf(&sb, "%s:%d@%s ", t.name, atomic.LoadInt32(&t.state), t.point)
			}
			s.Log = append(s.Log, "DEADLOCK "+sb.String())
			return // leaks the blocked goroutines; the world is discarded by the caller
		}
		choice := 0
		if s.pos < len(s.Decisions) {
			choice = s.Decisions[s.pos] % len(parked)
			if choice < 0 {
				choice = -choice
			}
		}
		s.pos++
		s.Taken = append(s.Taken, [2]int{choice, len(parked)})
		t := parked[choice]
		inflight := 0
		for id := range started {
			if atomic.LoadInt32(&s.tasks[id].state) != tDone {
				inflight++
			}
		}
		if inflight >= 2 {
			s.Overlap++
		}
		started[t.id] = true
		s.Log = append(s.Log, fmt.Sprintf("%s@%s", t.name, t.point))
		atomic.StoreInt32(&t.state, tRunning)
		t.wake <- struct{}{}
	}
	wg.Wait()
}

// ---------------- yielding decorators ----------------

// yieldIPAM makes every call through the IPAM interface a yield point and delegates to the real crdIpam.
type yieldIPAM struct {
	floatingip.IPAM
	w *World
}

func (y *yieldIPAM) ConfigurePool(p []*floatingip.FloatingIPPool) error {
	y.w.yield("ipam.ConfigurePool")
	return y.IPAM.ConfigurePool(p)
}
func (y *yieldIPAM) ReleaseIPs(m map[string]string) (map[string]string, map[string]string, error) {
	y.w.yield("ipam.ReleaseIPs")
	return y.IPAM.ReleaseIPs(m)
}
func (y *yieldIPAM) AllocateSpecificIP(k string, ip net.IP, a floatingip.Attr) error {
	y.w.yield("ipam.AllocateSpecificIP")
	return y.IPAM.AllocateSpecificIP(k, ip, a)
}
func (y *yieldIPAM) AllocateInSubnet(k string, n *net.IPNet, a floatingip.Attr) (net.IP, error) {
	y.w.yield("ipam.AllocateInSubnet")
	return y.IPAM.AllocateInSubnet(k, n, a)
}
func (y *yieldIPAM) AllocateInSubnetsAndIPRange(k string, n *net.IPNet, r [][]nets.IPRange, a floatingip.Attr) ([]net.IP, error) {
	y.w.yield("ipam.AllocateInSubnetsAndIPRange")
	return y.IPAM.AllocateInSubnetsAndIPRange(k, n, r, a)
}
func (y *yieldIPAM) AllocateInSubnetWithKey(o, n, s string, a floatingip.Attr) error {
	y.w.yield("ipam.AllocateInSubnetWithKey")
	return y.IPAM.AllocateInSubnetWithKey(o, n, s, a)
}
func (y *yieldIPAM) ReserveIP(o, n string, a floatingip.Attr) (bool, error) {
	y.w.yield("ipam.ReserveIP")
	return y.IPAM.ReserveIP(o, n, a)
}
func (y *yieldIPAM) UpdateAttr(k string, ip net.IP, a floatingip.Attr) error {
	y.w.yield("ipam.UpdateAttr")
	return y.IPAM.UpdateAttr(k, ip, a)
}
func (y *yieldIPAM) Release(k string, ip net.IP) error {
	y.w.yield("ipam.Release")
	return y.IPAM.Release(k, ip)
}
func (y *yieldIPAM) First(k string) (*floatingip.FloatingIPInfo, error) {
	y.w.yield("ipam.First")
	return y.IPAM.First(k)
}
func (y *yieldIPAM) ByIP(ip net.IP) (floatingip.FloatingIP, error) {
	y.w.yield("ipam.ByIP")
	return y.IPAM.ByIP(ip)
}
func (y *yieldIPAM) ByPrefix(p string) ([]*floatingip.FloatingIPInfo, error) {
	y.w.yield("ipam.ByPrefix")
	return y.IPAM.ByPrefix(p)
}
func (y *yieldIPAM) ByKeyAndIPRanges(k string, r [][]nets.IPRange) ([]*floatingip.FloatingIPInfo, error) {
	y.w.yield("ipam.ByKeyAndIPRanges")
	return y.IPAM.ByKeyAndIPRanges(k, r)
}
func (y *yieldIPAM) NodeSubnetsByIPRanges(r [][]nets.IPRange) (sets.String, error) {
	y.w.yield("ipam.NodeSubnetsByIPRanges")
	return y.IPAM.NodeSubnetsByIPRanges(r)
}

// yielding client wrappers: the yield happens *before* entering the fake clientset (whose Invokes holds a lock
// while reactors run).
type yKube struct {
	kubernetes.Interface
	w *World
}

func (y yKube) CoreV1() corev1client.CoreV1Interface { return yCore{y.Interface.CoreV1(), y.w} }

type yCore struct {
	corev1client.CoreV1Interface
	w *World
}

func (c yCore) Pods(ns string) corev1client.PodInterface {
	return yPods{c.CoreV1Interface.Pods(ns), c.w}
}
func (c yCore) Nodes() corev1client.NodeInterface { return yNodes{c.CoreV1Interface.Nodes(), c.w} }
func (c yCore) ConfigMaps(ns string) corev1client.ConfigMapInterface {
	return yCMs{c.CoreV1Interface.ConfigMaps(ns), c.w}
}

type yPods struct {
	corev1client.PodInterface
	w *World
}

func (p yPods) Get(ctx context.Context, name string, o metav1.GetOptions) (*corev1.Pod, error) {
	p.w.yield("api.get.pods")
	pod, err := p.PodInterface.Get(ctx, name, o)
	p.w.yield("api.get.pods.done") // the answer is on its way back: what the caller does with it is a separate step
	return pod, err
}
func (p yPods) Bind(ctx context.Context, b *corev1.Binding, o metav1.CreateOptions) error {
	p.w.yield("api.create.pods/binding")
	return p.PodInterface.Bind(ctx, b, o)
}

type yNodes struct {
	corev1client.NodeInterface
	w *World
}

func (p yNodes) Get(ctx context.Context, name string, o metav1.GetOptions) (*corev1.Node, error) {
	p.w.yield("api.get.nodes")
	return p.NodeInterface.Get(ctx, name, o)
}

type yCMs struct {
	corev1client.ConfigMapInterface
	w *World
}

func (p yCMs) Get(ctx context.Context, name string, o metav1.GetOptions) (*corev1.ConfigMap, error) {
	p.w.yield("api.get.configmaps")
	return p.ConfigMapInterface.Get(ctx, name, o)
}

type yGalaxy struct {
	galaxyclient.Interface
	w *World
}

func (y yGalaxy) GalaxyV1alpha1() galaxyv1.GalaxyV1alpha1Interface {
	return yGalaxyV1{y.Interface.GalaxyV1alpha1(), y.w}
}

type yGalaxyV1 struct {
	galaxyv1.GalaxyV1alpha1Interface
	w *World
}

func (g yGalaxyV1) FloatingIPs() galaxyv1.FloatingIPInterface {
	return yFIPs{g.GalaxyV1alpha1Interface.FloatingIPs(), g.w}
}
func (g yGalaxyV1) Pools(ns string) galaxyv1.PoolInterface {
	return yPools{g.GalaxyV1alpha1Interface.Pools(ns), g.w}
}

type yFIPs struct {
	galaxyv1.FloatingIPInterface
	w *World
}

func (f yFIPs) Create(ctx context.Context, o *v1alpha1.FloatingIP, opts metav1.CreateOptions) (*v1alpha1.FloatingIP, error) {
	f.w.yield("api.create.floatingips")
	r, err := f.FloatingIPInterface.Create(ctx, o, opts)
	f.w.yield("api.create.floatingips.done") // the store has the write, the caller has not acted on the answer yet
	return r, err
}
func (f yFIPs) Update(ctx context.Context, o *v1alpha1.FloatingIP, opts metav1.UpdateOptions) (*v1alpha1.FloatingIP, error) {
	f.w.yield("api.update.floatingips")
	r, err := f.FloatingIPInterface.Update(ctx, o, opts)
	f.w.yield("api.update.floatingips.done") // the store has the write, the caller has not acted on the answer yet
	return r, err
}
func (f yFIPs) Delete(ctx context.Context, name string, opts metav1.DeleteOptions) error {
	f.w.yield("api.delete.floatingips")
	err := f.FloatingIPInterface.Delete(ctx, name, opts)
	f.w.yield("api.delete.floatingips.done")
	return err
}
func (f yFIPs) Get(ctx context.Context, name string, opts metav1.GetOptions) (*v1alpha1.FloatingIP, error) {
	f.w.yield("api.get.floatingips")
	return f.FloatingIPInterface.Get(ctx, name, opts)
}
func (f yFIPs) List(ctx context.Context, opts metav1.ListOptions) (*v1alpha1.FloatingIPList, error) {
	f.w.yield("api.list.floatingips")
	return f.FloatingIPInterface.List(ctx, opts)
}

type yPools struct {
	galaxyv1.PoolInterface
	w *World
}

func (f yPools) Get(ctx context.Context, name string, opts metav1.GetOptions) (*v1alpha1.Pool, error) {
	f.w.yield("api.get.pools")
	return f.PoolInterface.Get(ctx, name, opts)
}
func (f yPools) Create(ctx context.Context, o *v1alpha1.Pool, opts metav1.CreateOptions) (*v1alpha1.Pool, error) {
	f.w.yield("api.create.pools")
	return f.PoolInterface.Create(ctx, o, opts)
}
func (f yPools) Update(ctx context.Context, o *v1alpha1.Pool, opts metav1.UpdateOptions) (*v1alpha1.Pool, error) {
	f.w.yield("api.update.pools")
	return f.PoolInterface.Update(ctx, o, opts)
}
