package ipamsim

import (
	"encoding/json"
	"fmt"
	"time"

	corev1 "k8s.io/api/core/v1"
	extfake "k8s.io/apiextensions-apiserver/pkg/client/clientset/clientset/fake"
	metav1 "k8s.io/apimachinery/pkg/apis/meta/v1"
	k8sruntime "k8s.io/apimachinery/pkg/runtime"
	dynfake "k8s.io/client-go/dynamic/fake"
	kubefake "k8s.io/client-go/kubernetes/fake"
	k8stesting "k8s.io/client-go/testing"
	"pgregory.net/rapid"
	"tkestack.io/galaxy/pkg/api/galaxy/constant"
	"tkestack.io/galaxy/pkg/api/k8s/schedulerapi"
	"tkestack.io/galaxy/pkg/ipam/apis/galaxy/v1alpha1"
	galaxyfake "tkestack.io/galaxy/pkg/ipam/client/clientset/versioned/fake"
	ipamcontext "tkestack.io/galaxy/pkg/ipam/context"
	"tkestack.io/galaxy/pkg/ipam/schedulerplugin"
	testhelper "tkestack.io/galaxy/pkg/ipam/schedulerplugin/testing"
	"tkestack.io/galaxy/pkg/ipam/utils"
	"verifharness/vcore"
)

// ---------- C07 at start-up: the size in force is the size of the Pool object the API server stores, also for the first
// requests a restarted galaxy-ipam serves. The process is started the way server.Start does it (real informers of the real
// IPAMContext over fake clientsets, then the plugin), the API server answers the initial list of one kind of object slowly,
// and the scheduler sends filter and bind for pods of a deployment sharing the pool at once.

func genStartup(t *rapid.T) *StartupCase {
	return &StartupCase{Size: rapid.IntRange(0, 2).Draw(t, "suSize"), Pods: rapid.IntRange(1, 4).Draw(t, "suPods"),
		Slow: rapid.SampledFrom([]string{"pools", "pools", "floatingips", "pods", "deployments", "nodes", ""}).Draw(t, "suSlow"),
		MS:   rapid.SampledFrom([]int{150, 300}).Draw(t, "suMs")}
}

func checkStartup(c *StartupCase, r *vcore.Rec) *vcore.Failure {
	const poolName, ns = "pool1", "ns1"
	var pods []*corev1.Pod
	objs := []k8sruntime.Object{}
	nodes := []corev1.Node{testhelper.CreateNode("node3", nil, "10.49.27.3"), testhelper.CreateNode("node4", nil, "10.173.13.4"),
		testhelper.CreateNode("node5", nil, "10.0.1.5")}
	for i := range nodes {
		objs = append(objs, &nodes[i])
	}
	for i := 0; i < c.Pods; i++ {
		p := testhelper.CreateDeploymentPod(fmt.Sprintf("dp-xxx-%c%c%c", 'a'+i, 'a'+i, 'a'+i), ns, map[string]string{constant.IPPoolAnnotation: poolName})
		pods = append(pods, p)
		objs = append(objs, p)
	}
	objs = append(objs, testhelper.CreateDeployment(pods[0].ObjectMeta, int32(c.Pods)))
	kube := kubefake.NewSimpleClientset(objs...)
	galaxy := galaxyfake.NewSimpleClientset(&v1alpha1.Pool{TypeMeta: metav1.TypeMeta{Kind: "Pool", APIVersion: "v1alpha1"},
		ObjectMeta: metav1.ObjectMeta{Name: poolName, Namespace: "kube-system"}, Size: c.Size})
	slow := func(a k8stesting.Action) (bool, k8sruntime.Object, error) {
		if a.GetVerb() == "list" && a.GetResource().Resource == c.Slow {
			time.Sleep(time.Duration(c.MS) * time.Millisecond)
		}
		return false, nil, nil
	}
	kube.PrependReactor("list", "*", slow)
	galaxy.PrependReactor("list", "*", slow)
	ctx := ipamcontext.NewIPAMContext(kube, galaxy, extfake.NewSimpleClientset(), dynfake.NewSimpleDynamicClient(k8sruntime.NewScheme()))
	stop := make(chan struct{})
	defer close(stop)
	ctx.StartInformers(stop)
	var conf schedulerplugin.Conf
	if err := json.Unmarshal([]byte(utils.TestConfig), &conf); err != nil {
		return vcore.Failf("harness:init", "test configuration does not decode: %v", err)
	}
	plugin, err := schedulerplugin.NewFloatingIPPlugin(conf, ctx)
	if err != nil {
		return vcore.Failf("harness:init", "plugin construction failed: %v", err)
	}
	if err := plugin.Init(); err != nil {
		return vcore.Failf("harness:init", "plugin init failed: %v", err)
	}
	bound := 0
	for _, pod := range pods {
		filtered, failed, err := plugin.Filter(pod, nodes)
		if err != nil || len(filtered) == 0 {
			r.Logf("filter %s: passed=%d failed=%v err=%v", pod.Name, len(filtered), failed, err)
			continue
		}
		err = plugin.Bind(&schedulerapi.ExtenderBindingArgs{PodName: pod.Name, PodNamespace: pod.Namespace, Node: filtered[0].Name})
		r.Logf("bind %s to %s: %v", pod.Name, filtered[0].Name, err)
		if err == nil {
			bound++
		}
	}
	held, err := plugin.GetIpam().ByPrefix("pool__" + poolName + "_")
	if err != nil {
		return vcore.Failf("harness:init", "ByPrefix failed: %v", err)
	}
	r.ClassIf(true, "startup_case")
	r.ClassIf(c.Slow == "pools", "startup_pool_list_slow")
	r.ClassIf(c.Pods > c.Size, "startup_more_pods_than_size")
	if c.Pods > c.Size {
		r.NonTrivial()
	}
	if len(held) > c.Size {
		var l []string
		for _, f := range held {
			l = append(l, f.IPInfo.IP.String()+"="+f.Key)
		}
		return vcore.Failf("c07:startup:over_size", "right after start-up (initial list of %q took %d ms) %d pods of the deployment were scheduled and "+
			"pool %s of size %d holds %d IPs: %v", c.Slow, c.MS, c.Pods, poolName, c.Size, len(held), l)
	}
	return nil
}
