package ipamsim

import (
	"strings"

	corev1 "k8s.io/api/core/v1"
	metav1 "k8s.io/apimachinery/pkg/apis/meta/v1"

	"verifharness/vcore"
)

// ---------- C07: a sized IP pool never grows beyond its size ----------

type ObsC07 struct {
	// pendMax / pendUndef: largest size in force (resp. "no Pool object") seen while some pod of the pool had a successful
	// filter whose bind is still to come. A scheduling attempt is filter + bind: the size in force when the filter
	// approved the pod still counts when its bind allocates.
	podIPSync     bool
	opIdx         int
	pendMax       map[string]int
	pendUndef     map[string]bool
	noOutstanding map[string]bool
	base          map[string]int // count at the start of the current op / episode
	maxSize       map[string]int // largest size in force (truth or lister) seen during the current op / episode
	undef         map[string]bool
	started       bool
	Overlap       bool
	PreAlloc      bool
}

func (o *ObsC07) pools(x *Exec) []string {
	seen := map[string]bool{}
	var out []string
	for _, wl := range x.C.WLs {
		if wl.Pool != "" && !seen[wl.Pool] {
			seen[wl.Pool] = true
			out = append(out, wl.Pool)
		}
	}
	return out
}

func countPrefix(alloc map[string]SnapFIP, prefix string) int {
	n := 0
	for _, f := range alloc {
		if strings.HasPrefix(f.Key, prefix) {
			n++
		}
	}
	return n
}

func (o *ObsC07) sample(x *Exec) {
	if o.pendMax == nil {
		o.pendMax, o.pendUndef, o.noOutstanding = map[string]int{}, map[string]bool{}, map[string]bool{}
	}
	outstanding := map[string]bool{}
	x.W.mu.Lock()
	for _, rec := range x.W.Pods {
		if len(rec.Filtered) > 0 && !rec.Bound && rec.WL < len(x.C.WLs) {
			outstanding[x.C.WLs[rec.WL].Pool] = true
		}
	}
	x.W.mu.Unlock()
	for _, p := range o.pools(x) {
		st, okT := x.W.PoolSizeTruth(p)
		sv, okV := x.W.PoolSizeView(p)
		o.noOutstanding[p] = !outstanding[p]
		if outstanding[p] {
			if !okT || !okV {
				o.pendUndef[p] = true
			}
			if okT && st > o.pendMax[p] {
				o.pendMax[p] = st
			}
			if okV && sv > o.pendMax[p] {
				o.pendMax[p] = sv
			}
		}
		if !okT || !okV {
			o.undef[p] = true // without a Pool object the cap is the deployment's replicas, not a pool size
		}
		if okT && st > o.maxSize[p] {
			o.maxSize[p] = st
		}
		if okV && sv > o.maxSize[p] {
			o.maxSize[p] = sv
		}
	}
}

// begin is called at the first observation of an op/episode.
func (o *ObsC07) begin(x *Exec, snap *Snapshot) {
	o.base, o.maxSize, o.undef = map[string]int{}, map[string]int{}, map[string]bool{}
	// a pod update event (and the periodic pod-IP sync) puts the IP a RUNNING pod carries back into IPAM if it is missing there:
	// that restores an allocation made earlier, it is neither scheduling nor pre-allocation, so the cap is not checked across it
	o.podIPSync = false
	if cur := x.W.curOp; cur >= 0 && cur < len(x.C.Ops) {
		op := x.C.Ops[cur]
		for _, k := range append([]Op{op}, op.Sub...) {
			if k.K == "deliver" || k.K == "deliverlate" || k.K == "syncips" || k.K == "quiesce" {
				o.podIPSync = true
			}
		}
	}
	for _, p := range o.pools(x) {
		o.base[p] = countPrefix(snap.Alloc, "pool__"+p+"_")
	}
	o.sample(x)
	o.started = true
}

func (o *ObsC07) check(x *Exec) *vcore.Failure {
	// sample the sizes first: the tables may be unreadable at this step (a parked task holds the cache lock), the sizes never are
	o.sample(x)
	alloc, _, ok := x.W.TryTables()
	if !ok {
		return nil
	}
	for _, p := range o.pools(x) {
		if o.undef[p] || o.pendUndef[p] || o.podIPSync {
			continue
		}
		n := 0
		for _, f := range alloc {
			if strings.HasPrefix(f.Key, "pool__"+p+"_") {
				n++
			}
		}
		limit := o.maxSize[p]
		if o.base[p] > limit {
			limit = o.base[p]
		}
		if o.pendMax[p] > limit {
			limit = o.pendMax[p]
		}
		if n > limit {
			return vcore.Failf("c07:over_size", "pool %s holds %d IPs; size in force is at most %d and it held %d when the operation(s) started",
				p, n, o.maxSize[p], o.base[p])
		}
	}
	return nil
}

func (o *ObsC07) AfterStep(x *Exec) *vcore.Failure {
	if !o.started || o.opIdx != x.OpIndex {
		o.begin(x, x.LastQuiescent)
		o.opIdx = x.OpIndex
	}
	return o.check(x)
}

func (o *ObsC07) AfterOp(x *Exec, i int, op Op, res *OpResult) *vcore.Failure {
	if !o.started || o.opIdx != x.OpIndex {
		// (an episode of several operations ends without resetting started: the next operation starts a new window)
		o.begin(x, x.LastQuiescent)
		o.opIdx = x.OpIndex
	}
	if op.K == "poolapi" && strings.Contains(res.Info, `"preAllocateIP":true`) {
		o.PreAlloc = true
	}
	f := o.check(x)
	if !x.InEpisode && !res.Concurrent {
		o.started = false
		// the window of a scheduling attempt closes once no pod of the pool waits for its bind any more
		for p, none := range o.noOutstanding {
			if none {
				delete(o.pendMax, p)
				delete(o.pendUndef, p)
			}
		}
	}
	return f
}

// ---------- C09: reserved and de-configured IPs are never allocated; reload is lossless ----------

type ObsC09 struct {
	Probes      int
	leftover    map[string]bool // objects of de-configured IPs whose deletion failed because of the injected API error
	bindSeen    int
	DroppedKept bool // a reload dropped >= 1 allocated IP and kept >= 1
	InWindow    bool
}

func (o *ObsC09) checkAlloc(x *Exec) *vcore.Failure {
	alloc, _, ok := x.W.TryTables()
	if ok {
		for ip, f := range alloc {
			if x.Reserved[ip] && f.Key != "admin-reserved" && f.Key != "" {
				return vcore.Failf("c09:reserved_allocated", "IP %s is reserved by an administrator (labelled FloatingIP) but IPAM allocated it to %q",
					ip, f.Key)
			}
		}
	}
	x.W.mu.Lock()
	binds := append([]BindingRec{}, x.W.Bindings[o.bindSeen:]...)
	o.bindSeen = len(x.W.Bindings)
	x.W.mu.Unlock()
	for _, b := range binds {
		for _, ip := range b.IPs {
			if x.Reserved[ip] {
				return vcore.Failf("c09:reserved_bound", "pod %s was bound with IP %s which an administrator reserved", b.Pod, ip)
			}
			okCfg := inConfig(x.ConfInForce, ip) || inConfig(x.ConfAtOpStart, ip)
			for _, cfg := range x.ReloadTargets {
				if inConfig(cfg, ip) {
					okCfg = true
				}
			}
			if !okCfg {
				return vcore.Failf("c09:unconfigured_bound", "pod %s was bound with IP %s which is not in the floatingip configuration", b.Pod, ip)
			}
		}
	}
	return nil
}

func (o *ObsC09) AfterStep(x *Exec) *vcore.Failure { return o.checkAlloc(x) }

func (o *ObsC09) AfterOp(x *Exec, i int, op Op, res *OpResult) *vcore.Failure {
	if f := o.checkAlloc(x); f != nil {
		return f
	}
	if x.InEpisode || len(x.ReloadTargets) == 0 {
		return nil
	}
	// a reload (possibly overlapping other operations) has completed
	if f := x.Agreement(); f != nil {
		f.Sig = strings.Replace(f.Sig, "c05:", "c09:reload:", 1)
		f.Msg = "after a reload: " + f.Msg
		return f
	}
	conf := AllIPsOf(x.ConfInForce)
	alloc, unalloc := x.W.Tables()
	for ip := range alloc {
		if _, ok := conf[ip]; !ok {
			return vcore.Failf("c09:reload:stale_table", "after a reload IP %s is allocated in memory but not configured any more", ip)
		}
	}
	for ip := range unalloc {
		if _, ok := conf[ip]; !ok {
			return vcore.Failf("c09:reload:stale_table", "after a reload IP %s is in the unallocated table but not configured any more", ip)
		}
	}
	if len(alloc)+len(unalloc) != len(conf) {
		return vcore.Failf("c09:reload:tables", "after a reload tables hold %d+%d IPs, configuration has %d", len(alloc), len(unalloc), len(conf))
	}
	// (ConfigurePool deliberately goes on when the deletion of a de-configured object fails - "every freshCache will produce an
	// error" otherwise - and the next reload or restart tries again: with a failing API call injected into this very operation a
	// leftover object is by design, not a finding)
	faultHere := x.C.FaultAt != nil && x.C.FaultAt.Op == i && x.W.faultHitEver
	if o.leftover == nil {
		o.leftover = map[string]bool{}
	}
	for ip := range x.W.StoreList() {
		if _, ok := conf[ip]; !ok && faultHere {
			o.leftover[ip] = true // stays until a later reload with a different text (or a restart) deletes it
		}
	}
	for ip := range x.W.StoreList() {
		if _, ok := conf[ip]; !ok && !o.leftover[ip] {
			return vcore.Failf("c09:reload:stale_object", "after a reload the FloatingIP object %s still exists although the IP is not configured", ip)
		}
	}
	// the daemon's view of the nodes follows the configuration: a fresh default-policy pod is offered exactly the nodes from which
	// a free configured IP is routable (a node subnet cached from the previous configuration would say otherwise for good)
	if f := o.probeNodes(x); f != nil {
		return f
	}
	if x.LastQuiescent != nil && op.K == "reload" && !res.Concurrent {
		// lossless: a reload running alone keeps every allocation whose IP is still configured, owner and policy unchanged
		for ip, before := range x.LastQuiescent.Alloc {
			if _, ok := conf[ip]; !ok {
				continue
			}
			if before.Key == "admin-reserved" && !x.Reserved[ip] {
				continue // the administrator already deleted the reservation object; memory only learns it now (or by the watch event)
			}
			after, ok := alloc[ip]
			if !ok {
				return vcore.Failf("c09:reload:lost", "a reload dropped the allocation of %s (owner %q) although the IP is still configured", ip, before.Key)
			}
			if after.Key != before.Key || after.Policy != before.Policy {
				return vcore.Failf("c09:reload:changed", "a reload changed the allocation of %s from %q (policy %d) to %q (policy %d)", ip,
					before.Key, before.Policy, after.Key, after.Policy)
			}
		}
	}
	if x.LastQuiescent != nil {
		kept, dropped := 0, 0
		for ip := range x.LastQuiescent.Alloc {
			if _, ok := conf[ip]; ok {
				kept++
			} else {
				dropped++
			}
		}
		if kept > 0 && dropped > 0 {
			o.DroppedKept = true
		}
	}
	return nil
}

// probeNodes filters a pod that exists nowhere (no owner, default policy, no ranges: Filter allocates nothing for it) against all
// nodes and compares the answer with the configuration in force.
func (o *ObsC09) probeNodes(x *Exec) *vcore.Failure {
	w := x.W
	_, unalloc := w.Tables()
	probe := &corev1.Pod{ObjectMeta: metav1.ObjectMeta{Name: "c09-probe", Namespace: NS, UID: "c09-probe-uid"}, Spec: eniPodSpec()}
	var nodes []corev1.Node
	for _, n := range w.Topo.Nodes {
		nodes = append(nodes, *n.Object())
	}
	var out []corev1.Node
	var err error
	w.runOp(func() { out, _, err = w.Plugin.Filter(probe, nodes) })
	if err != nil {
		return nil
	}
	offered := map[string]bool{}
	for _, n := range out {
		offered[n.Name] = true
	}
	for _, n := range w.Topo.Nodes {
		want := false
		for _, p := range x.ConfInForce {
			if !p.RoutableFrom(n.IP) {
				continue
			}
			for ip := range AllIPsOf([]PoolT{p}) {
				if _, free := unalloc[ip]; free {
					want = true
				}
			}
		}
		if want != offered[n.Name] {
			return vcore.Failf("c09:reload:node_view", "after a reload node %s (%s): the configuration in force has a free IP routable from it = %v, but a "+
				"fresh default-policy pod is offered the node = %v", n.Name, n.IP, want, offered[n.Name])
		}
	}
	o.Probes++
	return nil
}
