package ipamsim

import (
	"fmt"
	"testing"

	"pgregory.net/rapid"
	"verifharness/vcore"
)

type c05Case struct {
	Case
	FaultPicks [][3]int `json:"fault_picks"` // (op pick, call pick, error kind) resolved against the fault-free API trace
	AllIndices bool     `json:"all_indices"` // thorough: every API-call index of every op
}

var c05Params = &HistoryParams{MinOps: 12, MaxOps: 35, Cloud: 1, Lag: true, Ranges: true, Reloads: true,
	Weights: map[string]int{"drop": 0, "restart": 1, "reload": 3, "apirelease": 4, "poolapi": 3, "reserve": 1, "unreserve": 1, "fipevent": 2}}

func genC05(all bool) *rapid.Generator[c05Case] {
	return rapid.Custom(func(t *rapid.T) c05Case {
		c := c05Case{Case: GenHistory(t, c05Params), AllIndices: all}
		addReservationStories(t, &c.Case, true)
		n := rapid.IntRange(4, 10).Draw(t, "nFaults")
		for i := 0; i < n; i++ {
			c.FaultPicks = append(c.FaultPicks, [3]int{rapid.IntRange(0, 1000).Draw(t, "opPick"), rapid.IntRange(0, 30).Draw(t, "kPick"),
				rapid.IntRange(0, 2).Draw(t, "errKind")})
		}
		return c
	})
}

func checkC05(c c05Case, r *vcore.Rec) *vcore.Failure {
	// fault-free run: agreement after every op, restart equivalence at the end, and the API-call trace
	base := c.Case
	base.FaultAt = nil
	o0 := &ObsC05{}
	r0 := &vcore.Rec{}
	x0, f := runHistory(base, r0, o0)
	if x0 == nil {
		return f
	}
	if f != nil {
		f.Trace = r0.Trace()
		return f
	}
	if f := x0.RestartEquivalent(); f != nil {
		f.Trace = r0.Trace()
		return f
	}
	perOp := map[int][]APICall{}
	var ops []int
	for _, c := range x0.W.FullTrace {
		if _, ok := perOp[c.Op]; !ok {
			ops = append(ops, c.Op)
		}
		perOp[c.Op] = append(perOp[c.Op], c)
	}
	if len(ops) == 0 {
		return nil
	}
	type fa struct {
		op, k int
		err   string
	}
	var faults []fa
	errKinds := []string{"internal", "conflict", "notfound"}
	if c.AllIndices {
		for _, op := range ops {
			for k := range perOp[op] {
				faults = append(faults, fa{op, k + 1, errKinds[(op+k)%3]})
			}
		}
	} else {
		seen := map[[2]int]bool{}
		for _, p := range c.FaultPicks {
			op := ops[p[0]%len(ops)]
			k := 1 + p[1]%len(perOp[op])
			if seen[[2]int{op, k}] {
				continue
			}
			seen[[2]int{op, k}] = true
			faults = append(faults, fa{op, k, errKinds[p[2]%3]})
		}
	}
	multi := false
	for _, ft := range faults {
		call := perOp[ft.op][ft.k-1]
		if len(perOp[ft.op]) >= 3 {
			multi = true
		}
		for _, mode := range []string{"error", "crash_before", "crash_after"} {
			errKind := ft.err
			if call.Verb == "delete" && errKind == "notfound" {
				// "not found" for the deletion of an object that exists would be a lie of the API server (the caller rightly takes the
				// object for gone); a failing deletion is an internal error or a timeout
				errKind = "timeout"
			}
			if call.Resource == "pods/binding" && mode == "error" {
				errKind = "notfound" // any other error makes Bind sleep 500ms per retry; NotFound is the fast failing path
			}
			cc := c.Case
			cc.FaultAt = &FaultAt{Op: ft.op, Fault: Fault{K: ft.k, Mode: mode, Err: errKind}}
			o := &ObsC05{}
			rr := &vcore.Rec{}
			x, f := runHistory(cc, rr, o)
			vcore.Extra("fault_runs", 1)
			if x != nil && x.W.faultHitEver {
				vcore.Extra("fault_hits", 1)
				vcore.Extra("mode:"+mode, 1)
				vcore.Extra("call:"+call.Verb+"."+call.Resource, 1)
				r.Class("fault_hit")
			}
			if o.Crashes > 0 {
				r.Class("crash_restart")
			}
			if f != nil {
				f.Msg = fmt.Sprintf("[fault %s@op%d call#%d %s %s %s] %s", mode, ft.op, ft.k, call.Verb, call.Resource, call.Name, f.Msg)
				f.Trace = rr.Trace()
				return f
			}
			if x != nil && mode == "error" {
				if f := x.RestartEquivalent(); f != nil {
					f.Msg = fmt.Sprintf("[fault %s@op%d call#%d %s %s] %s", mode, ft.op, ft.k, call.Verb, call.Resource, f.Msg)
					f.Trace = rr.Trace()
					return f
				}
			}
		}
	}
	classify(x0, r)
	r.ClassIf(multi, "fault_inside_multi_call_op")
	if multi {
		r.NonTrivial()
	}
	return nil
}

func TestC05(t *testing.T) {
	vcore.CaseTimeout = 300e9
	vcore.Run(t, "C05", genC05(false), checkC05)
}

func TestC05All(t *testing.T) {
	vcore.CaseTimeout = 900e9
	vcore.Run(t, "C05", genC05(true), checkC05)
}
