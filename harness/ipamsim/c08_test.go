package ipamsim

import (
	"fmt"
	"net"
	"testing"

	"pgregory.net/rapid"
	"tkestack.io/galaxy/pkg/api/galaxy/constant"
	"tkestack.io/galaxy/pkg/ipam/floatingip"
	"tkestack.io/galaxy/pkg/utils/nets"
	"verifharness/vcore"
)

// ---------- C08: multi-IP requests get one IP per range, all or nothing ----------

type c08Case struct {
	Topo     Topo       `json:"topo"`
	Ranges   [][]string `json:"ranges"`    // k pairwise-disjoint range lists
	PreAlloc []int      `json:"pre_alloc"` // picks of IPs owned by others
	PreOwn   []int      `json:"pre_own"`   // picks of IPs (inside the ranges) already owned by the same key
	NodePick int        `json:"node_pick"`
	// Restart: galaxy-ipam restarts (and re-reads configuration and store) between the pre-owned allocations and the request
	Restart bool `json:"restart,omitempty"`
}

func genC08() *rapid.Generator[c08Case] {
	return rapid.Custom(func(t *rapid.T) c08Case {
		c := c08Case{Topo: GenTopo(t, 6)}
		if rapid.IntRange(0, 3).Draw(t, "anyPools") == 0 {
			c.Ranges = genRanges(t, c.Topo, rapid.IntRange(1, 4).Draw(t, "k"))
		} else {
			c.Ranges = genRangesRoutable(t, c.Topo, rapid.IntRange(1, 4).Draw(t, "k"))
		}
		n := rapid.IntRange(0, 6).Draw(t, "nPre")
		for i := 0; i < n; i++ {
			c.PreAlloc = append(c.PreAlloc, rapid.IntRange(0, 1000).Draw(t, "pre"))
		}
		m := rapid.IntRange(0, 2).Draw(t, "nOwn")
		for i := 0; i < m; i++ {
			c.PreOwn = append(c.PreOwn, rapid.IntRange(0, 1000).Draw(t, "own"))
		}
		c.NodePick = rapid.IntRange(0, 7).Draw(t, "node")
		c.Restart = m > 0 && rapid.Bool().Draw(t, "restart")
		return c
	})
}

type c08State struct {
	x     *Exec
	pod   *PodRec
	free  map[string]bool
	owned []string
}

func setupC08(c *c08Case) (*c08State, *vcore.Failure) {
	wl := WL{Kind: "sts", Name: "s0", Replicas: 3, Ranges: c.Ranges}
	hc := &Case{Topo: c.Topo, WLs: []WL{wl}}
	x, err := NewExec(hc, &vcore.Rec{})
	if err != nil {
		return nil, vcore.Failf("harness:init", "world construction failed: %v", err)
	}
	st := &c08State{x: x, free: map[string]bool{}}
	all := c.Topo.AllIPs()
	ips := sortedIPs(all)
	for _, ip := range ips {
		st.free[ip] = true
	}
	ipam := x.W.Plugin.GetIpam()
	st.pod = x.W.CreatePod(0, &hc.WLs[0], hc.WLs[0].PodName(1))
	for i, p := range c.PreAlloc {
		ip := ips[p%len(ips)]
		if st.free[ip] && ipam.AllocateSpecificIP(fmt.Sprintf("sts_%s_zz_zz-%d", NS, i), net.ParseIP(ip), floatingip.Attr{Policy: constant.ReleasePolicyNever}) == nil {
			st.free[ip] = false
		}
	}
	for _, p := range c.PreOwn {
		var cands []string
		for _, ip := range ips {
			if !st.free[ip] {
				continue
			}
			for _, l := range c.Ranges {
				if inRangeList(l, ip) {
					dup := false
					for _, o := range st.owned {
						if inRangeList(l, o) {
							dup = true
						}
					}
					if !dup {
						cands = append(cands, ip)
					}
				}
			}
		}
		if len(cands) == 0 {
			continue
		}
		ip := cands[p%len(cands)]
		if ipam.AllocateSpecificIP(st.pod.Key, net.ParseIP(ip), floatingip.Attr{}) == nil {
			st.free[ip] = false
			st.owned = append(st.owned, ip)
		}
	}
	return st, nil
}

func sameSnapshot(a, b *Snapshot) (bool, string) {
	if len(a.Alloc) != len(b.Alloc) || len(a.Unalloc) != len(b.Unalloc) {
		return false, fmt.Sprintf("allocated %d -> %d, unallocated %d -> %d", len(a.Alloc), len(b.Alloc), len(a.Unalloc), len(b.Unalloc))
	}
	for ip, f := range a.Alloc {
		if g, ok := b.Alloc[ip]; !ok || g.Key != f.Key {
			return false, fmt.Sprintf("IP %s: %q -> %q (allocated=%v)", ip, f.Key, g.Key, ok)
		}
	}
	return true, ""
}

func parseRanges(lists [][]string) [][]nets.IPRange {
	var out [][]nets.IPRange
	for _, l := range lists {
		var rs []nets.IPRange
		for _, s := range l {
			if r := nets.ParseIPRange(s); r != nil {
				rs = append(rs, *r)
			}
		}
		out = append(out, rs)
	}
	return out
}

func checkC08(c c08Case, r *vcore.Rec) *vcore.Failure {
	if len(c.Ranges) == 0 {
		return nil
	}
	k := len(c.Ranges)
	all := c.Topo.AllIPs()
	pools := c.Topo.Pools
	exhausted, preowned, failedIdx, restarted := false, false, false, false
	// --- level A: the IPAM call itself, with the j-th object creation failing (j = 0 means no fault)
	for j := 0; j <= k; j++ {
		st, f := setupC08(&c)
		if f != nil {
			return f
		}
		w := st.x.W
		var nodeNames []string
		for _, n := range c.Topo.Nodes {
			if NodeSubnetOf(pools, n.IP) != "" {
				nodeNames = append(nodeNames, n.Name)
			}
		}
		if len(nodeNames) == 0 {
			return nil
		}
		// ranges still to allocate: those without an IP owned by the key (the plugin passes only those)
		var need [][]string
		for _, l := range c.Ranges {
			own := false
			for _, o := range st.owned {
				if inRangeList(l, o) {
					own = true
				}
			}
			if !own {
				need = append(need, l)
			}
		}
		preowned = preowned || len(st.owned) > 0
		if len(need) == 0 {
			break
		}
		// model: possible iff every needed list has a free IP routable from the node
		isPossible := func(nodeIP string) bool {
			for _, l := range need {
				ok := false
				for ip, fr := range st.free {
					if fr && inRangeList(l, ip) && pools[all[ip]].RoutableFrom(nodeIP) {
						ok = true
					}
				}
				if !ok {
					return false
				}
			}
			return true
		}
		// prefer (3 times out of 4) a node from which the request can be satisfied, starting at the generated pick
		node := nodeNames[c.NodePick%len(nodeNames)]
		if c.NodePick%4 != 3 {
			for i := range nodeNames {
				n := nodeNames[(c.NodePick+i)%len(nodeNames)]
				if isPossible(st.x.nodeIP(n)) {
					node = n
					break
				}
			}
		}
		nodeIP := st.x.nodeIP(node)
		_, subnet, _ := net.ParseCIDR(NodeSubnetOf(pools, nodeIP))
		possible := isPossible(nodeIP)
		if !possible {
			exhausted = true
		}
		before := w.Snap()
		storeBefore := w.StoreList()
		if j > 0 {
			w.ArmFault(&Fault{K: j, Mode: "error", Err: []string{"internal", "exists", "timeout"}[j%3]})
		}
		var got []net.IP
		var err error
		w.runOp(func() {
			got, err = w.Plugin.GetIpam().AllocateInSubnetsAndIPRange(st.pod.Key, subnet, parseRanges(need), floatingip.Attr{Uid: st.pod.UID})
		})
		hit := w.FaultHit()
		w.ArmFault(nil)
		r.Logf("level A j=%d node=%s need=%v possible=%v hit=%v -> %v err=%v", j, node, need, possible, hit, got, err)
		if j >= 2 && hit {
			failedIdx = true
		}
		if err == nil {
			if hit {
				return vcore.Failf("c08:fault_swallowed", "create #%d failed but AllocateInSubnetsAndIPRange reported success", j)
			}
			if !possible {
				return vcore.Failf("c08:impossible_success", "allocation succeeded (%v) although a requested list has no free routable IP", got)
			}
			if len(got) != len(need) {
				return vcore.Failf("c08:count", "requested %d ranges, got %d IPs %v", len(need), len(got), got)
			}
			seen := map[string]bool{}
			for i, ip := range got {
				s := ip.String()
				if seen[s] {
					return vcore.Failf("c08:duplicate", "IP %s returned twice: %v", s, got)
				}
				seen[s] = true
				if !inRangeList(need[i], s) {
					return vcore.Failf("c08:range_order", "IP #%d %s is not inside the %d-th requested list %v (result %v)", i, s, i, need[i], got)
				}
				if pi, ok := all[s]; !ok || !pools[pi].RoutableFrom(nodeIP) {
					return vcore.Failf("c08:unroutable", "IP %s is not routable from node %s", s, node)
				}
			}
			after := w.Snap()
			for _, ip := range got {
				if after.Alloc[ip.String()].Key != st.pod.Key {
					return vcore.Failf("c08:not_recorded", "IP %s returned but not allocated to the key in memory", ip)
				}
			}
			if f := st.x.Agreement(); f != nil {
				return f
			}
		} else {
			if possible && !hit {
				return vcore.Failf("c08:possible_failed", "allocation failed (%v) although every list has a free routable IP: need=%v free=%v", err,
					need, freeList(st.free))
			}
			after := w.Snap()
			if same, diff := sameSnapshot(before, after); !same {
				return vcore.Failf("c08:not_all_or_nothing", "allocation failed (%v, create #%d failing=%v) but the tables changed: %s", err, j, hit, diff)
			}
			storeAfter := w.StoreList()
			if len(storeAfter) != len(storeBefore) {
				return vcore.Failf("c08:store_leftover", "allocation failed (%v) but the store went from %d to %d FloatingIP objects", err,
					len(storeBefore), len(storeAfter))
			}
		}
	}
	// --- level B: through the plugin (Filter, then Bind with the j-th creation failing)
	for j := 0; j <= k; j++ {
		st, f := setupC08(&c)
		if f != nil {
			return f
		}
		w := st.x.W
		if c.Restart {
			if err := w.Restart(); err != nil {
				return vcore.Failf("harness:restart", "restart failed: %v", err)
			}
			st.x.buildAPI()
			restarted = true
		}
		nodes, _, err, _ := w.Filter(st.pod.Name, st.x.nodeNames())
		if err != nil || len(nodes) == 0 {
			r.Logf("level B filter -> %v err=%v", nodes, err)
			break
		}
		node := nodes[c.NodePick%len(nodes)]
		before := w.Snap()
		if j > 0 {
			w.ArmFault(&Fault{K: j, Mode: "error", Err: []string{"internal", "exists", "timeout"}[j%3]})
		}
		berr, _ := w.Bind(st.pod.Name, st.pod.UID, node)
		hit := w.FaultHit()
		// the fault index counts API calls of the whole Bind; only creations of FloatingIPs are relevant here
		hitCreate := false
		for _, cl := range w.Trace {
			if cl.N == j && cl.Verb == "create" && cl.Resource == "floatingips" {
				hitCreate = true
			}
		}
		w.ArmFault(nil)
		r.Logf("level B j=%d bind %s -> err=%v payload=%v hit=%v", j, node, berr, st.pod.Payload, hit)
		if berr == nil {
			if len(st.pod.Payload) != k {
				return vcore.Failf("c08:bind_count", "pod requested %d ranges and was bound with %d IPs %v", k, len(st.pod.Payload), st.pod.Payload)
			}
			seen := map[string]bool{}
			for i, ip := range st.pod.Payload {
				if seen[ip] {
					return vcore.Failf("c08:bind_duplicate", "IP %s twice in the binding: %v", ip, st.pod.Payload)
				}
				seen[ip] = true
				if !inRangeList(c.Ranges[i], ip) {
					return vcore.Failf("c08:bind_order", "binding IP #%d %s is not inside the %d-th requested list %v (payload %v)", i, ip, i,
						c.Ranges[i], st.pod.Payload)
				}
				if pi, ok := all[ip]; !ok || !pools[pi].RoutableFrom(st.x.nodeIP(node)) {
					return vcore.Failf("c08:bind_unroutable", "binding IP %s is not routable from node %s", ip, node)
				}
			}
			for _, o := range st.owned {
				if !seen[o] {
					return vcore.Failf("c08:preowned_not_reused", "the key already owned %s inside a requested range but the binding is %v", o, st.pod.Payload)
				}
			}
		} else if hitCreate || !hit {
			after := w.Snap()
			if same, diff := sameSnapshot(before, after); !same {
				return vcore.Failf("c08:bind_not_all_or_nothing", "bind failed (%v) but the tables changed: %s", berr, diff)
			}
			if f := st.x.Agreement(); f != nil {
				return f
			}
		}
	}
	r.ClassIf(exhausted, "range_exhausted")
	r.ClassIf(preowned, "range_preowned")
	r.ClassIf(restarted && preowned, "preowned_then_restarted")
	r.ClassIf(failedIdx, "create_failed_at_index_ge_1")
	r.ClassIf(k >= 2, "k_ge_2")
	if k >= 2 && (failedIdx || exhausted || preowned) {
		r.NonTrivial()
	}
	return nil
}

func TestC08(t *testing.T) { vcore.Run(t, "C08", genC08(), checkC08) }
