package ipamsim

import (
	"fmt"
	"sort"

	putil "tkestack.io/galaxy/pkg/ipam/schedulerplugin/util"
	"verifharness/vcore"
)

func (x *Exec) livePods() []*PodRec {
	x.W.mu.Lock()
	defer x.W.mu.Unlock()
	var out []*PodRec
	for _, p := range x.W.Pods {
		if p.Live() && p.Bound {
			out = append(out, p)
		}
	}
	sort.Slice(out, func(i, j int) bool { return out[i].Name < out[j].Name })
	return out
}

func inConfig(pools []PoolT, ip string) bool {
	_, ok := AllIPsOf(pools)[ip]
	return ok
}

// ---------- C01: a floating IP is never held by two live pods ----------

type ObsC01 struct {
	Realloc bool // an IP was released and re-allocated
	seenKey map[string]string
}

func (o *ObsC01) check(x *Exec, quiescent bool) *vcore.Failure {
	alloc, unalloc, ok := x.W.TryTables()
	if !ok {
		return nil // a task is parked inside a write-locked section: the tables are mid-update
	}
	for ip := range alloc {
		if _, both := unalloc[ip]; both {
			return vcore.Failf("c01:both_tables", "IP %s is in the allocated and the unallocated table", ip)
		}
	}
	if quiescent {
		want := AllIPsOf(x.ConfInForce)
		if len(alloc)+len(unalloc) != len(want) {
			return vcore.Failf("c01:union", "tables hold %d+%d IPs, configuration has %d", len(alloc), len(unalloc), len(want))
		}
		for ip := range want {
			_, a := alloc[ip]
			_, u := unalloc[ip]
			if !a && !u {
				return vcore.Failf("c01:union", "configured IP %s is in neither table", ip)
			}
		}
	}
	live := x.livePods()
	holder := map[string]*PodRec{}
	for _, p := range live {
		for _, ip := range p.Payload {
			if x.everDropped(ip) {
				// an administrator removed this IP from the configuration while it was in use (and may have put it back): the
				// allocation was dropped on purpose (C09), what happens to the IP afterwards is outside this property
				continue
			}
			if q, dup := holder[ip]; dup && q != p {
				return vcore.Failf("c01:two_live_pods", "IP %s was handed to two live pods: %s (uid %s) and %s (uid %s)", ip, q.Name,
					q.UID, p.Name, p.UID)
			}
			holder[ip] = p
			if f, ok := alloc[ip]; ok && f.Key != p.Key {
				ko := putil.ParseKey(f.Key)
				if ko.PodName != "" && ko.PodName != p.Name {
					return vcore.Failf("c01:two_owners", "IP %s is in live pod %s's binding but IPAM owner is %s", ip, p.Name, f.Key)
				}
			}
		}
	}
	if o.seenKey == nil {
		o.seenKey = map[string]string{}
	}
	for ip, f := range alloc {
		if prev, ok := o.seenKey[ip]; ok && prev != f.Key && prev != "" && f.Key != "" {
			o.Realloc = true
		}
		o.seenKey[ip] = f.Key
	}
	return nil
}

func (o *ObsC01) AfterOp(x *Exec, i int, op Op, res *OpResult) *vcore.Failure {
	return o.check(x, true)
}
func (o *ObsC01) AfterStep(x *Exec) *vcore.Failure { return o.check(x, false) }

// ---------- C04: a live pod's IP is never released, re-keyed or handed on ----------

type ObsC04 struct {
	cloudSeen int
	Dangerous bool            // an unbind/resync/release/reload ran while a same-named replacement pod was live and bound
	exempt    map[string]bool // pod uid + ip that a reload legitimately took away (configuration without the IP)
}

func (o *ObsC04) check(x *Exec) *vcore.Failure {
	alloc, _, ok := x.W.TryTables()
	if !ok {
		return nil
	}
	live := x.livePods()
	for _, p := range live {
		for _, ip := range p.Payload {
			if o.exempt == nil {
				o.exempt = map[string]bool{}
			}
			out := !inConfig(x.ConfInForce, ip)
			for _, cfg := range x.ReloadTargets {
				if !inConfig(cfg, ip) {
					out = true
				}
			}
			if out {
				o.exempt[p.UID+"/"+ip] = true // a reload to a configuration without the IP may drop it, for good
			}
			if o.exempt[p.UID+"/"+ip] {
				continue
			}
			f, ok := alloc[ip]
			if !ok && x.MixedKeys[p.Key] {
				return vcore.Failf("c04:released:stale_sync_mixed_uid", "live pod %s (uid %s) lost its IP %s after its key also held an IP "+
					"re-allocated for an older incarnation by the pod-IP sync of a stale update event; resync released both", p.Name, p.UID, ip)
			}
			if !ok {
				return vcore.Failf("c04:released", "live pod %s (uid %s, bound to %s) lost its IP %s: it is unallocated", p.Name, p.UID,
					p.Node, ip)
			}
			if f.Key != p.Key {
				return vcore.Failf("c04:rekeyed", "live pod %s (uid %s) holds %s but IPAM owner is now %q", p.Name, p.UID, ip, f.Key)
			}
		}
	}
	// cloud provider: no successful unassign of a live bound pod's IP after its binding
	x.W.Cloud.mu.Lock()
	calls := x.W.Cloud.calls
	x.W.Cloud.mu.Unlock()
	for i := o.cloudSeen; i < len(calls); i++ {
		c := calls[i]
		if c.Assign {
			continue
		}
		for _, p := range live {
			for _, ip := range p.Payload {
				if ip == c.IP && i >= p.CloudSeqAtBind && !o.exempt[p.UID+"/"+ip] {
					return vcore.Failf("c04:unassigned", "cloud provider was asked to unassign %s (node %s) while live pod %s (uid %s) holds it",
						ip, c.Node, p.Name, p.UID)
				}
			}
		}
	}
	o.cloudSeen = len(calls)
	return nil
}

func (o *ObsC04) AfterOp(x *Exec, i int, op Op, res *OpResult) *vcore.Failure {
	if f := o.check(x); f != nil {
		return f
	}
	// classification: did a release path run while a same-named replacement was live and bound?
	switch op.K {
	case "unbind", "resync", "apirelease", "reload", "syncips", "quiesce":
		for _, p := range x.livePods() {
			n := 0
			for _, q := range x.W.AllPods {
				if q.Name == p.Name {
					n++
				}
			}
			if n >= 2 {
				o.Dangerous = true
			}
		}
	}
	return nil
}
func (o *ObsC04) AfterStep(x *Exec) *vcore.Failure { return o.check(x) }

var _ = fmt.Sprintf
