package ipamsim

import (
	"encoding/json"
	"fmt"
	"net"
	"sort"
	"strings"
	"testing"

	corev1 "k8s.io/api/core/v1"
	metav1 "k8s.io/apimachinery/pkg/apis/meta/v1"
	"pgregory.net/rapid"
	"tkestack.io/galaxy/pkg/api/galaxy/constant"
	"tkestack.io/galaxy/pkg/ipam/api"
	"tkestack.io/galaxy/pkg/ipam/floatingip"
	putil "tkestack.io/galaxy/pkg/ipam/schedulerplugin/util"
	"verifharness/vcore"
)

// ---------- C11: allocation keys are unambiguous and the API releases what it lists ----------

type c11Pod struct {
	Ns        string `json:"ns"`
	Name      string `json:"name"`
	OwnerKind string `json:"owner_kind"` // "" = no owner
	OwnerName string `json:"owner_name"`
	TwoOwners bool   `json:"two_owners"`
	Pool      string `json:"pool"`
	Exists    bool   `json:"exists"` // a pod object of that name exists (the entry is not releasable)
	Policy    int    `json:"policy"`
}

type c11Case struct {
	Pods  []c11Pod `json:"pods"`
	Size  int      `json:"size"`
	Page  int      `json:"page"`
	Query int      `json:"query"`
	Sort  int      `json:"sort"` // 0 "ip", 1 "ip asc", 2 "ip desc"
}

func genDNSLabel(t *rapid.T, label string, max int) string {
	switch rapid.IntRange(0, 5).Draw(t, label+"Kind") {
	case 0:
		return rapid.StringMatching(`[a-z0-9]([a-z0-9-]{0,8}[a-z0-9])?`).Draw(t, label)
	case 1:
		// maximal length, hyphens and digits
		s := rapid.StringMatching(`[a-z0-9][a-z0-9-]{20,80}`).Draw(t, label+"Long")
		if len(s) > max-1 {
			s = s[:max-1]
		}
		return s + "0"
	case 2:
		return rapid.SampledFrom([]string{"a", "0", "a-0", "a--b", "1-2-3", "x-1", "sts", "dp", "pool", "null", "kube-system"}).Draw(t, label+"Special")
	default:
		return rapid.StringMatching(`[a-z][a-z0-9]{0,5}(-[a-z0-9]{1,5}){0,3}`).Draw(t, label)
	}
}

func genC11() *rapid.Generator[c11Case] {
	return rapid.Custom(func(t *rapid.T) c11Case {
		n := rapid.IntRange(1, 40).Draw(t, "nPods")
		if rapid.Bool().Draw(t, "few") {
			n = rapid.IntRange(1, 6).Draw(t, "nPodsFew")
		}
		c := c11Case{}
		seen := map[string]bool{}
		for i := 0; i < n; i++ {
			p := c11Pod{Ns: genDNSLabel(t, "ns", 63), Name: genDNSLabel(t, "name", 63)}
			if rapid.IntRange(0, 3).Draw(t, "sameNs") > 0 && len(c.Pods) > 0 {
				p.Ns = c.Pods[0].Ns
			}
			if seen[p.Ns+"/"+p.Name] {
				continue
			}
			seen[p.Ns+"/"+p.Name] = true
			p.OwnerKind = rapid.SampledFrom([]string{"", "StatefulSet", "ReplicaSet", "ReplicaSet", "Deployment", "TApp", "Foo", "GameStatefulSet",
				"statefulset", "DaemonSet", "Job", "CloneSet", "Redis", "Process", "Ingress", "StorageClass", "StatefulSets", "TApps", "S", "Ss"}).Draw(t, "ownerKind")
			if rapid.IntRange(0, 4).Draw(t, "anyKind") == 0 {
				// any kind a custom resource definition may declare (CamelCase; plural-looking and double-s endings included)
				p.OwnerKind = rapid.StringMatching(`[A-Z][a-z]{0,6}([A-Z][a-z]{1,5})?(s|ss|es)?`).Draw(t, "crdKind")
			}
			if p.OwnerKind != "" {
				p.OwnerName = genDNSLabel(t, "owner", 63)
				if p.OwnerKind == "ReplicaSet" && rapid.IntRange(0, 3).Draw(t, "rsHash") > 0 {
					p.OwnerName += "-" + rapid.StringMatching(`[a-z0-9]{5,10}`).Draw(t, "hash")
				}
				p.TwoOwners = rapid.IntRange(0, 9).Draw(t, "twoOwners") == 0
			}
			if rapid.IntRange(0, 3).Draw(t, "pool") == 0 {
				p.Pool = genDNSLabel(t, "poolName", 63)
			}
			p.Exists = rapid.IntRange(0, 4).Draw(t, "exists") == 0
			p.Policy = rapid.IntRange(0, 2).Draw(t, "policy")
			c.Pods = append(c.Pods, p)
			// a sibling whose name (hence key) has this pod's name as a string prefix: web-1 / web-10, a / a0
			if len(p.Name) < 40 && rapid.IntRange(0, 3).Draw(t, "prefixSibling") == 0 && !seen[p.Ns+"/"+p.Name+"0"] {
				q := p
				q.Name = p.Name + "0"
				seen[q.Ns+"/"+q.Name] = true
				q.Exists = rapid.Bool().Draw(t, "siblingExists")
				c.Pods = append(c.Pods, q)
			}
		}
		c.Size = rapid.IntRange(-1, 10000).Draw(t, "size")
		if rapid.IntRange(0, 2).Draw(t, "smallSize") > 0 {
			c.Size = rapid.IntRange(1, 12).Draw(t, "sizeSmall")
		}
		c.Page = rapid.IntRange(-1, 100000).Draw(t, "page")
		if rapid.IntRange(0, 2).Draw(t, "smallPage") > 0 {
			c.Page = rapid.IntRange(0, 6).Draw(t, "pageSmall")
		}
		c.Query = rapid.IntRange(0, 3).Draw(t, "query")
		c.Sort = rapid.IntRange(0, 2).Draw(t, "sort")
		return c
	})
}

func (p c11Pod) object() *corev1.Pod {
	pod := &corev1.Pod{ObjectMeta: metav1.ObjectMeta{Name: p.Name, Namespace: p.Ns, Annotations: map[string]string{}}, Spec: eniPodSpec()}
	if p.OwnerKind != "" {
		pod.OwnerReferences = []metav1.OwnerReference{{Kind: p.OwnerKind, Name: p.OwnerName}}
		if p.TwoOwners {
			pod.OwnerReferences = append(pod.OwnerReferences, metav1.OwnerReference{Kind: "Other", Name: "other"})
		}
	}
	if p.Pool != "" {
		pod.Annotations[constant.IPPoolAnnotation] = p.Pool
	}
	return pod
}

var c11Topo = Topo{
	Pools: []PoolT{{NodeSubnets: []string{"10.49.27.0/24"}, Subnet: "10.0.70.0/24", Gateway: "10.0.70.1", Ranges: [][2]uint32{{0x0a004602, 0x0a004640}}}},
	Nodes: []NodeT{{Name: "n0", IP: "10.49.27.3"}},
}

func checkC11(c c11Case, r *vcore.Rec) *vcore.Failure {
	// (a)(b) key codec
	type keyed struct {
		pod c11Pod
		key *putil.KeyObj
	}
	var ks []keyed
	byKey := map[string]c11Pod{}
	kinds := map[string]bool{}
	for _, p := range c.Pods {
		ko, err := putil.FormatKey(p.object())
		if err != nil {
			r.Class("unsupported_owner")
			continue // galaxy refuses such pods (e.g. ReplicaSet plus a second owner): they never get a key
		}
		if q, dup := byKey[ko.KeyInDB]; dup {
			return vcore.Failf("c11:collision", "pods %s/%s and %s/%s map to the same key %q", p.Ns, p.Name, q.Ns, q.Name, ko.KeyInDB)
		}
		byKey[ko.KeyInDB] = p
		back := putil.ParseKey(ko.KeyInDB)
		if back.PodName != p.Name || back.Namespace != p.Ns || back.AppName != ko.AppName || back.AppTypePrefix != ko.AppTypePrefix ||
			back.PoolName != p.Pool {
			return vcore.Failf("c11:decode", "key %q of pod %s/%s (owner %s %s, pool %q) decodes to pod=%q ns=%q app=%q type=%q pool=%q",
				ko.KeyInDB, p.Ns, p.Name, p.OwnerKind, p.OwnerName, p.Pool, back.PodName, back.Namespace, back.AppName, back.AppTypePrefix, back.PoolName)
		}
		if !strings.HasPrefix(ko.KeyInDB, ko.PoolPrefix()) && p.Pool != "" {
			return vcore.Failf("c11:prefix", "PoolPrefix %q is not a prefix of key %q", ko.PoolPrefix(), ko.KeyInDB)
		}
		if !strings.HasPrefix(ko.KeyInDB, ko.PoolAppPrefix()) {
			return vcore.Failf("c11:prefix", "PoolAppPrefix %q is not a prefix of key %q", ko.PoolAppPrefix(), ko.KeyInDB)
		}
		if p.Pool == "" && ko.Deployment() && !strings.HasPrefix(ko.KeyInDB, ko.PoolPrefix()) {
			return vcore.Failf("c11:prefix", "PoolPrefix %q is not a prefix of deployment key %q", ko.PoolPrefix(), ko.KeyInDB)
		}
		kinds[ko.AppTypePrefix] = true
		ks = append(ks, keyed{p, ko})
	}
	if len(ks) == 0 {
		return nil
	}
	// (c)(d)(e) the API: allocate one IP per key, list, page, release what is listed
	hc := &Case{Topo: c11Topo}
	x, err := NewExec(hc, &vcore.Rec{})
	if err != nil {
		return vcore.Failf("harness:init", "world construction failed: %v", err)
	}
	w := x.W
	ipam := w.Plugin.GetIpam()
	ips := sortedIPs(c11Topo.AllIPs())
	owner := map[string]string{} // ip -> key
	for i, k := range ks {
		ip := ips[i]
		if err := ipam.AllocateSpecificIP(k.key.KeyInDB, net.ParseIP(ip), floatingip.Attr{Policy: constant.ReleasePolicy(k.pod.Policy)}); err != nil {
			return vcore.Failf("harness:alloc", "pre-allocation failed: %v", err)
		}
		owner[ip] = k.key.KeyInDB
		if k.pod.Exists {
			pod := k.pod.object()
			pod.Status.Phase = corev1.PodRunning
			_ = w.Kube.Tracker().Add(pod)
			_ = w.podIdx.Add(pod)
		}
	}
	// (e) paging
	sortParam := []string{"ip", "ip%20asc", "ip%20desc"}[c.Sort%3]
	q := fmt.Sprintf("/v1/ip?size=%d&page=%d&sort=%s", c.Size, c.Page, sortParam)
	code, body := x.HTTP("GET", q, nil)
	if code != 200 {
		return vcore.Failf("c11:list_status", "GET %s -> %d %s", q, code, body)
	}
	var first api.ListIPResp
	if err := json.Unmarshal([]byte(body), &first); err != nil {
		return vcore.Failf("c11:list_decode", "GET %s: %v", q, err)
	}
	size := first.Size
	if size <= 0 {
		return vcore.Failf("c11:page_size", "response reports page size %d", size)
	}
	total := len(ips)
	if first.TotalElements != total {
		return vcore.Failf("c11:total", "totalElements %d, IPAM holds %d IPs", first.TotalElements, total)
	}
	seen := map[string]int{}
	var entries []api.FloatingIP
	pages := first.TotalPages
	if pages*size < total || (pages-1)*size >= total && total > 0 {
		return vcore.Failf("c11:total_pages", "totalPages %d with size %d for %d elements", pages, size, total)
	}
	for pg := 0; pg < pages; pg++ {
		code, body := x.HTTP("GET", fmt.Sprintf("/v1/ip?size=%d&page=%d&sort=%s", size, pg, sortParam), nil)
		var lr api.ListIPResp
		if code != 200 || json.Unmarshal([]byte(body), &lr) != nil {
			return vcore.Failf("c11:list_status", "page %d -> %d", pg, code)
		}
		if lr.First != (pg == 0) || lr.Last != (pg == pages-1) || lr.Number != pg || lr.NumberOfElements != len(lr.Content) {
			return vcore.Failf("c11:page_meta", "page %d/%d: first=%v last=%v number=%d numberOfElements=%d content=%d", pg, pages, lr.First,
				lr.Last, lr.Number, lr.NumberOfElements, len(lr.Content))
		}
		for _, e := range lr.Content {
			seen[e.IP]++
			entries = append(entries, e)
		}
	}
	// a client that keeps asking for the next page until one comes back empty: the pages behind the last one show nothing (again)
	for _, pg := range []int{pages, pages + 1, c.Page} {
		if pg < pages {
			continue
		}
		code, body := x.HTTP("GET", fmt.Sprintf("/v1/ip?size=%d&page=%d&sort=%s", size, pg, sortParam), nil)
		var lr api.ListIPResp
		if code != 200 || json.Unmarshal([]byte(body), &lr) != nil {
			return vcore.Failf("c11:list_status", "page %d -> %d", pg, code)
		}
		for _, e := range lr.Content {
			seen[e.IP]++
		}
		r.Class("paged_past_the_end")
	}
	for _, ip := range ips {
		if seen[ip] != 1 {
			return vcore.Failf("c11:paging", "walking %d pages of size %d and on until an empty page shows IP %s %d times", pages, size, ip, seen[ip])
		}
	}
	if len(seen) != total {
		return vcore.Failf("c11:paging", "walking the pages shows %d distinct IPs, IPAM holds %d", len(seen), total)
	}
	// the walk is in the requested order (the API orders IPs as strings)
	for i := 1; i < len(entries); i++ {
		if asc := entries[i-1].IP < entries[i].IP; asc == (c.Sort%3 == 2) {
			return vcore.Failf("c11:order", "sort=%s: %s is listed before %s", sortParam, entries[i-1].IP, entries[i].IP)
		}
	}
	r.ClassIf(pages >= 2, "multi_page")
	r.ClassIf(c.Sort%3 == 2, "sorted_descending")
	r.ClassIf(len(kinds) >= 3, "three_owner_kinds")
	if len(kinds) >= 3 && pages >= 2 {
		r.NonTrivial()
	}
	// (c') an entry posted with the IP of ANOTHER owner (a stale list page: the IP changed hands) releases nothing
	crossed := 0
	for i := 0; i < len(entries) && crossed < 8; i++ {
		for j := 0; j < len(entries) && crossed < 8; j++ {
			ka, okA := owner[entries[i].IP]
			kb, okB := owner[entries[j].IP]
			if i == j || !okA || !okB || ka == kb {
				continue
			}
			if !strings.HasPrefix(kb, ka) && crossed >= 4 {
				continue // prefer pairs whose keys are related, take a few unrelated ones too
			}
			crossed++
			m := entries[i]
			m.IP = entries[j].IP
			before := w.Snap()
			req, _ := json.Marshal(api.ReleaseIPReq{IPs: []api.FloatingIP{m}})
			code, body := x.HTTP("POST", "/v1/ip", req)
			after := w.Snap()
			for ip, f := range before.Alloc {
				if g, ok := after.Alloc[ip]; !ok || g.Key != f.Key {
					return vcore.Failf("c11:other_owner", "posting the entry of %q with the IP %s of %q (HTTP %d %s) released or re-keyed %s", ka,
						m.IP, kb, code, strings.TrimSpace(body), ip)
				}
			}
			r.ClassIf(strings.HasPrefix(kb, ka), "crossed_entry_prefix_related")
		}
	}
	sort.Slice(entries, func(i, j int) bool { return entries[i].IP < entries[j].IP })
	// (c'') several listed entries posted back in ONE request, app type spelled out for some and omitted for the statefulset ones
	// (the documented default), in list order and with the explicit ones first: exactly those IPs are released
	{
		var explicit, omitted []api.FloatingIP
		for _, e := range entries {
			if key, ok := owner[e.IP]; !ok || !e.Releasable || byKey[key].Exists {
				continue
			}
			if e.AppType == "statefulset" {
				v := e
				v.AppType = ""
				omitted = append(omitted, v)
			} else if e.AppType != "" {
				explicit = append(explicit, e)
			}
		}
		if len(explicit) > 0 && len(omitted) > 0 {
			if len(explicit) > 2 {
				explicit = explicit[:2]
			}
			if len(omitted) > 2 {
				omitted = omitted[:2]
			}
			batch := append(append([]api.FloatingIP{}, explicit...), omitted...)
			want := map[string]bool{}
			for _, e := range batch {
				want[e.IP] = true
			}
			before := w.Snap()
			req, _ := json.Marshal(api.ReleaseIPReq{IPs: batch})
			code, body := x.HTTP("POST", "/v1/ip", req)
			after := w.Snap()
			for ip, f := range before.Alloc {
				_, still := after.Alloc[ip]
				if want[ip] == still {
					return vcore.Failf("c11:batch_release", "one request with %d listed entries (app type given for the first %d, omitted for the statefulset "+
						"ones) -> HTTP %d %s; IP %s (key %q) released=%v, expected released=%v; request %s", len(batch), len(explicit), code,
						strings.TrimSpace(body), ip, f.Key, !still, want[ip], req)
				}
			}
			for _, e := range batch { // put them back for the per-entry differential below
				k := owner[e.IP]
				if err := ipam.AllocateSpecificIP(k, net.ParseIP(e.IP), floatingip.Attr{Policy: constant.ReleasePolicy(byKey[k].Policy)}); err != nil {
					return vcore.Failf("harness:alloc", "re-allocation after the batch failed: %v", err)
				}
			}
			r.Class("batch_release_mixed_apptype")
		}
	}
	// (c)(d) list -> release differential
	for _, e := range entries {
		key, allocated := owner[e.IP]
		if !allocated {
			if e.Releasable {
				return vcore.Failf("c11:releasable_free", "unallocated IP %s is listed as releasable", e.IP)
			}
			continue
		}
		pod := byKey[key]
		if e.Releasable == pod.Exists {
			return vcore.Failf("c11:releasable", "entry %+v: releasable=%v but pod exists=%v", e, e.Releasable, pod.Exists)
		}
		variants := []api.FloatingIP{e}
		if e.AppType == "statefulset" {
			v := e
			v.AppType = ""
			variants = append(variants, v) // app type omitted means statefulset, as documented
			r.Class("sts_apptype_omitted")
		}
		for vi, v := range variants {
			before := w.Snap()
			req, _ := json.Marshal(api.ReleaseIPReq{IPs: []api.FloatingIP{v}})
			code, body := x.HTTP("POST", "/v1/ip", req)
			after := w.Snap()
			released := []string{}
			for ip, f := range before.Alloc {
				if g, ok := after.Alloc[ip]; !ok {
					released = append(released, ip)
				} else if g.Key != f.Key {
					return vcore.Failf("c11:rekeyed", "releasing %s changed the key of %s", e.IP, ip)
				}
			}
			if !e.Releasable {
				if len(released) != 0 {
					return vcore.Failf("c11:released_live", "entry %+v is not releasable (pod exists) but posting it released %v", e, released)
				}
				continue
			}
			if len(released) != 1 || released[0] != e.IP {
				return vcore.Failf("c11:list_release", "posting the listed entry %s back (variant %d: %s) -> HTTP %d %s; released %v, expected exactly [%s] "+
					"(key %q)", e.IP, vi, req, code, strings.TrimSpace(body), released, e.IP, key)
			}
			// re-allocate for the next variant
			if vi+1 < len(variants) {
				if err := ipam.AllocateSpecificIP(key, net.ParseIP(e.IP), floatingip.Attr{Policy: constant.ReleasePolicy(pod.Policy)}); err != nil {
					return vcore.Failf("harness:alloc", "re-allocation failed: %v", err)
				}
			} else {
				delete(owner, e.IP)
			}
		}
	}
	return nil
}

func TestC11(t *testing.T) { vcore.Run(t, "C11", genC11(), checkC11) }
