package ipamsim

import (
	"encoding/json"
	"fmt"
	"net"
	"strings"

	corev1 "k8s.io/api/core/v1"
	metav1 "k8s.io/apimachinery/pkg/apis/meta/v1"
	"tkestack.io/galaxy/pkg/api/galaxy/constant"
	"tkestack.io/galaxy/pkg/utils/nets"
	testhelper "tkestack.io/galaxy/pkg/utils/test"
)

// PoolT is one floating-IP pool of a topology (model side; rendered to the documented JSON text).
type PoolT struct {
	NodeSubnets []string    `json:"node_subnets"` // CIDRs, pairwise identical or disjoint across the topology
	Subnet      string      `json:"subnet"`       // pod subnet CIDR
	Gateway     string      `json:"gateway"`
	Vlan        uint16      `json:"vlan"`
	Ranges      [][2]uint32 `json:"ranges"`
	Routable    bool        `json:"routable"` // render with the deprecated routableSubnet field (single node subnet)
}

type NodeT struct {
	Name string `json:"name"`
	IP   string `json:"ip"` // "" = node without InternalIP
	// Dual: a dual-stack node: its status also lists a hostname, an external address and - after the IPv4 one - an IPv6 internal
	// address. Node subnets are IPv4, so "the node's address" stays the IPv4 one
	Dual bool `json:"dual,omitempty"`
}

func (n NodeT) Object() *corev1.Node {
	node := &corev1.Node{ObjectMeta: metav1.ObjectMeta{Name: n.Name}}
	if n.IP != "" {
		node.Status.Addresses = []corev1.NodeAddress{{Type: corev1.NodeInternalIP, Address: n.IP}}
		if n.Dual {
			node.Status.Addresses = []corev1.NodeAddress{{Type: corev1.NodeHostName, Address: n.Name}, {Type: corev1.NodeExternalIP, Address: "203.0.113.7"},
				{Type: corev1.NodeInternalIP, Address: n.IP}, {Type: corev1.NodeInternalIP, Address: "fd00::" + n.Name[1:]}}
		}
	}
	return node
}

type Topo struct {
	Pools []PoolT `json:"pools"`
	Nodes []NodeT `json:"nodes"`
}

func u32ip(x uint32) string { return nets.IntToIP(x).String() }

func ipU32(s string) uint32 { return nets.IPToInt(net.ParseIP(s)) }

// ConfigText renders the topology as the floatingip configuration JSON of doc/galaxy-ipam-config.md.
func (t Topo) ConfigText() string { return ConfigTextOf(t.Pools) }

func ConfigTextOf(pools []PoolT) string {
	var out []string
	for _, p := range pools {
		var ips []string
		for _, r := range p.Ranges {
			if r[0] == r[1] {
				ips = append(ips, u32ip(r[0]))
			} else {
				ips = append(ips, u32ip(r[0])+"~"+u32ip(r[1]))
			}
		}
		m := map[string]interface{}{"ips": ips, "subnet": p.Subnet, "gateway": p.Gateway}
		if p.Vlan != 0 {
			m["vlan"] = p.Vlan
		}
		if p.Routable && len(p.NodeSubnets) == 1 {
			m["routableSubnet"] = p.NodeSubnets[0]
		} else {
			m["nodeSubnets"] = p.NodeSubnets
		}
		data, _ := json.Marshal(m)
		out = append(out, string(data))
	}
	return "[" + strings.Join(out, ",") + "]"
}

// AllIPs returns every configured IP with the index of its pool.
func (t Topo) AllIPs() map[string]int { return AllIPsOf(t.Pools) }

func AllIPsOf(pools []PoolT) map[string]int {
	out := map[string]int{}
	for i, p := range pools {
		for _, r := range p.Ranges {
			for x := uint64(r[0]); x <= uint64(r[1]); x++ {
				out[u32ip(uint32(x))] = i
			}
		}
	}
	return out
}

// NodeSubnetOf returns the configured node subnet containing the node's address ("" if none) - computed from the
// configuration text model, independently of IPAM.
func NodeSubnetOf(pools []PoolT, nodeIP string) string {
	ip := net.ParseIP(nodeIP)
	if ip == nil {
		return ""
	}
	for _, p := range pools {
		for _, c := range p.NodeSubnets {
			_, n, err := net.ParseCIDR(c)
			if err == nil && n.Contains(ip) {
				return n.String()
			}
		}
	}
	return ""
}

// Routable tells whether pool p is routable from a node with the given address.
func (p PoolT) RoutableFrom(nodeIP string) bool {
	ip := net.ParseIP(nodeIP)
	if ip == nil {
		return false
	}
	for _, c := range p.NodeSubnets {
		_, n, err := net.ParseCIDR(c)
		if err == nil && n.Contains(ip) {
			return true
		}
	}
	return false
}

func (p PoolT) MaskLen() int {
	_, n, _ := net.ParseCIDR(p.Subnet)
	l, _ := n.Mask.Size()
	return l
}

// WL is a workload of the simulated cluster.
type WL struct {
	Kind     string     `json:"kind"`   // sts | dp | cr (scalable custom resource) | nscr (not scalable CR) | bare
	Name     string     `json:"name"`   // DNS-1123, no '_'
	Policy   string     `json:"policy"` // "" | immutable | never
	Pool     string     `json:"pool"`   // pool annotation (dp only)
	Replicas int        `json:"replicas"`
	Ranges   [][]string `json:"ranges,omitempty"` // request_ip_range of its pods
	// AltRanges: request_ip_range after a change of the pod template; incarnations created with an odd C pick use it
	AltRanges [][]string `json:"alt_ranges,omitempty"`
	NoObject  bool       `json:"no_object"` // the workload object is never created (orphan pods)
	// Wide: a large index-named app: its three pod slots are the members 1, 10 and 11 (the key of x-1 is a string prefix of the keys
	// of x-10 and x-11)
	Wide bool `json:"wide,omitempty"`
	// Unset: the object's spec.replicas field is left out whenever the workload has one replica (the API default)
	Unset bool `json:"unset,omitempty"`
}

func (wl *WL) PodAnnotations() map[string]string {
	a := map[string]string{}
	if wl.Policy != "" {
		a[constant.ReleasePolicyAnnotation] = wl.Policy
	}
	if wl.Pool != "" {
		a[constant.IPPoolAnnotation] = wl.Pool
	}
	if len(wl.Ranges) > 0 {
		data, _ := json.Marshal(map[string]interface{}{"request_ip_range": wl.Ranges})
		a[constant.ExtendedCNIArgsAnnotation] = string(data)
	}
	return a
}

func (wl *WL) OwnerRefs() []metav1.OwnerReference {
	switch wl.Kind {
	case "sts":
		return []metav1.OwnerReference{{Kind: "StatefulSet", Name: wl.Name, APIVersion: "apps/v1"}}
	case "dp":
		return []metav1.OwnerReference{{Kind: "ReplicaSet", Name: wl.Name + "-5d4f8b7c9", APIVersion: "apps/v1"}}
	case "cr":
		return []metav1.OwnerReference{{Kind: testhelper.FooCrd.Spec.Names.Kind, Name: wl.Name, APIVersion: "test.org/v2"}}
	case "nscr":
		return []metav1.OwnerReference{{Kind: testhelper.NotScalableCrd.Spec.Names.Kind, Name: wl.Name, APIVersion: "test.org/v1"}}
	}
	return nil
}

// PodName returns the name of the i-th pod slot of the workload.
func (wl *WL) PodName(i int) string {
	switch wl.Kind {
	case "dp":
		return fmt.Sprintf("%s-5d4f8b7c9-%s", wl.Name, []string{"abcde", "fghij", "klmno", "pqrst", "uvwxy", "zabcd"}[i%6])
	case "bare":
		if i == 0 {
			return wl.Name
		}
		return fmt.Sprintf("%s-%d", wl.Name, i-1) // bare pods whose name looks like a stateful pod name
	}
	if wl.Wide {
		return fmt.Sprintf("%s-%d", wl.Name, []int{1, 10, 11}[i%3])
	}
	return fmt.Sprintf("%s-%d", wl.Name, i)
}

// PolicyNum is the numeric release policy galaxy derives from the pod annotations (pool => never).
func (wl *WL) PolicyNum() int {
	if wl.Pool != "" {
		return 2
	}
	switch wl.Policy {
	case "immutable":
		return 1
	case "never":
		return 2
	}
	return 0
}
