package ipamsim

import (
	"fmt"
	"os"
	"testing"

	"pgregory.net/rapid"
	"verifharness/vcore"
)

// TestDebugTrace prints the trace of a few generated histories (development aid).
func TestDebugTrace(t *testing.T) {
	if os.Getenv("VERIF_DEBUG") == "" {
		t.Skip()
	}
	n := 0
	rapid.Check(t, func(rt *rapid.T) {
		c := GenHistory(rt, c03Params)
		r := &vcore.Rec{}
		o := &ObsC03{}
		x, f := runHistory(c, r, o)
		n++
		if n%40 == 0 {
			fmt.Printf("---- case wls=%+v keeps=%d releases=%d sd=%v f=%v\n", c.WLs, o.Keeps, o.Releases, o.ScaleOrDelete, f)
			for _, l := range r.Trace() {
				if len(l) > 260 {
					l = l[:260]
				}
				fmt.Println(l)
			}
		}
		_ = x
	})
}

// TestDebugEnumConvoy enumerates all schedules of generated "release race" episodes (development aid for seed e04).
func TestDebugEnumConvoy(t *testing.T) {
	if os.Getenv("VERIF_DEBUG_ENUM") == "" {
		t.Skip()
	}
	tried := 0
	rapid.Check(t, func(rt *rapid.T) {
		c := GenHistory(rt, c04Params)
		if !c.Lag {
			return
		}
		last := -1
		for i, op := range c.Ops {
			if op.K == "episode" && len(op.Sub) == 4 && op.Sub[2].K == "synclister" {
				last = i
				break
			}
		}
		if last < 0 {
			return
		}
		c.Ops = c.Ops[:last+1]
		c.FaultAt = nil
		tried++
		f := enumerate(c, func() []Observer { return []Observer{&ObsC04{}} })
		if f != nil {
			fmt.Printf("FOUND after %d episodes: %s %s\n", tried, f.Sig, f.Msg)
			for _, l := range f.Trace {
				if len(l) > 600 {
					l = l[:600]
				}
				fmt.Println(l)
			}
			rt.Fatalf("found")
		}
	})
	fmt.Println("episodes enumerated:", tried)
}

// TestDebugE04 drives the hand-written "release queued behind rebind" history over a grid of convoy schedules (development aid).
func TestDebugE04(t *testing.T) {
	if os.Getenv("VERIF_DEBUG_E04") == "" {
		t.Skip()
	}
	topo := Topo{Pools: []PoolT{{NodeSubnets: []string{"10.49.27.0/24"}, Subnet: "10.0.70.0/24", Gateway: "10.0.70.1",
		Ranges: [][2]uint32{{0x0a004602, 0x0a004604}}}}, Nodes: []NodeT{{Name: "n0", IP: "10.49.27.3"}, {Name: "n1", IP: "10.49.27.4"}}}
	found := 0
	for ka := 1; ka <= 8; ka++ {
		for kb := 1; kb <= 8; kb++ {
			for m := 1; m <= 6; m++ {
				var sched []int
				for i := 0; i < ka; i++ {
					sched = append(sched, 0)
				}
				for i := 0; i < kb; i++ {
					sched = append(sched, 1)
				}
				for i := 0; i < m; i++ {
					sched = append(sched, 2)
				}
				for i := 0; i < 40; i++ {
					sched = append(sched, 1)
				}
				c := Case{Topo: topo, WLs: []WL{{Kind: "sts", Name: "s0", Policy: "immutable", Replicas: 3}}, Lag: true, Cloud: true,
					Ops: []Op{{K: "create"}, {K: "synclister", A: 2}, {K: "sched", B: 63}, {K: "synclister", A: 2}, {K: "phase"}, {K: "synclister", A: 2},
						{K: "deliver"}, {K: "deliver"}, {K: "deliver"},
						{K: "recreate"}, {K: "deliver"}, {K: "filter", B: 63},
						{K: "episode", Sub: []Op{{K: "unbind"}, {K: "apirelease"}, {K: "synclister", A: 0}, {K: "bind"}}, Sched: sched}}}
				r := &vcore.Rec{}
				_, f := runHistory(c, r, &ObsC04{})
				if f != nil {
					if f != nil {
						found++
					}
					fmt.Printf("==== ka=%d kb=%d m=%d f=%v\n", ka, kb, m, f)
					if found <= 1 || f == nil {
						for _, l := range r.Trace() {
							if len(l) > 900 {
								l = l[:900]
							}
							fmt.Println(l)
						}
					}
				}
			}
		}
	}
	fmt.Println("violating schedules:", found)
}

// TestDebugI04 drives the hand-written "pod-IP sync read the old incarnation, then everything else happened" history (development aid).
func TestDebugI04(t *testing.T) {
	if os.Getenv("VERIF_DEBUG_I04") == "" {
		t.Skip()
	}
	topo := Topo{Pools: []PoolT{{NodeSubnets: []string{"10.49.27.0/24"}, Subnet: "10.0.70.0/24", Gateway: "10.0.70.1",
		Ranges: [][2]uint32{{0x0a004602, 0x0a004606}}}}, Nodes: []NodeT{{Name: "n0", IP: "10.49.27.3"}, {Name: "n1", IP: "10.49.27.4"}}}
	found := 0
	for k := 1; k <= 9; k++ {
		var sched []int
		for i := 0; i < k; i++ {
			sched = append(sched, 0)
		}
		for i := 0; i < 80; i++ {
			sched = append(sched, 1)
		}
		c := Case{Topo: topo, WLs: []WL{{Kind: "sts", Name: "s0", Policy: "", Replicas: 3}}, Lag: true,
			Ops: []Op{{K: "create"}, {K: "synclister", A: 2}, {K: "sched", B: 63}, {K: "synclister", A: 2}, {K: "phase"}, {K: "synclister", A: 2},
				{K: "deliver"}, {K: "deliver"}, {K: "deliver"},
				{K: "recreate"},
				{K: "episode", Sub: []Op{{K: "syncips"}, {K: "deliverlate"}, {K: "unbindlate"}, {K: "synclister", A: 2}, {K: "sched", B: 63}}, Sched: sched},
				{K: "resync"}}}
		r := &vcore.Rec{}
		_, f := runHistory(c, r, &ObsC04{})
		if f != nil {
			found++
		}
		if f != nil && found == 1 || k == 3 {
			fmt.Printf("==== k=%d f=%v\n", k, f != nil)
			for _, l := range r.Trace() {
				if len(l) > 700 {
					l = l[:700]
				}
				fmt.Println(l)
			}
		}
	}
	fmt.Println("violating schedules:", found)
}

// TestDebugJ01 drives "release API has checked the pod, then the next incarnation is created and bound" (development aid).
func TestDebugJ01(t *testing.T) {
	if os.Getenv("VERIF_DEBUG_J01") == "" {
		t.Skip()
	}
	topo := Topo{Pools: []PoolT{{NodeSubnets: []string{"10.49.27.0/24"}, Subnet: "10.0.70.0/24", Gateway: "10.0.70.1",
		Ranges: [][2]uint32{{0x0a004602, 0x0a004606}}}}, Nodes: []NodeT{{Name: "n0", IP: "10.49.27.3"}, {Name: "n1", IP: "10.49.27.4"}}}
	found := 0
	for k := 1; k <= 12; k++ {
		var sched []int
		for i := 0; i < k; i++ {
			sched = append(sched, 0)
		}
		for i := 0; i < 80; i++ {
			sched = append(sched, 1)
		}
		c := Case{Topo: topo, WLs: []WL{{Kind: "sts", Name: "s0", Policy: "never", Replicas: 1}}, Lag: false,
			Ops: []Op{{K: "create"}, {K: "sched", B: 63}, {K: "delete"}, {K: "deliver"}, {K: "deliver"}, {K: "unbind"},
				{K: "episode", Sub: []Op{{K: "apirelease"}, {K: "newsched"}}, Sched: sched},
				{K: "create", A: 1}, {K: "sched", B: 63}, {K: "create", A: 2}, {K: "sched", B: 63}, {K: "resync"}}}
		r := &vcore.Rec{}
		_, f := runHistory(c, r, &ObsC01{}, &ObsC04{})
		if f != nil {
			found++
		}
		if f != nil && found == 1 || k == 4 {
			fmt.Printf("==== k=%d f=%v\n", k, f)
			for _, l := range r.Trace() {
				if len(l) > 500 {
					l = l[:500]
				}
				fmt.Println(l)
			}
		}
	}
	fmt.Println("violating schedules:", found)
}

// TestDebugO02 drives "resync between the replacement's filter and bind while the pod cache lacks the pod" (development aid).
func TestDebugO02(t *testing.T) {
	if os.Getenv("VERIF_DEBUG_O02") == "" {
		t.Skip()
	}
	topo := Topo{Pools: []PoolT{{NodeSubnets: []string{"10.49.27.0/24"}, Subnet: "10.0.70.0/24", Gateway: "10.0.70.1",
		Ranges: [][2]uint32{{0x0a004602, 0x0a004606}}}}, Nodes: []NodeT{{Name: "n0", IP: "10.49.27.3"}}}
	c := Case{Topo: topo, WLs: []WL{{Kind: "dp", Name: "d0", Policy: "never", Replicas: 2}}, Lag: true,
		Ops: []Op{{K: "create"}, {K: "synclister", A: 2}, {K: "sched", B: 63}, {K: "synclister", A: 2}, {K: "delete"}, {K: "deliver"}, {K: "deliver"}, {K: "deliver"}, {K: "unbind"},
			{K: "create", A: 1}, {K: "filter", B: 63}, {K: "resync"}, {K: "synclister", A: 2}, {K: "bind"}}}
	r := &vcore.Rec{}
	_, f := runHistory(c, r, &ObsC02{})
	fmt.Println("failure:", f)
	for _, l := range r.Trace() {
		if len(l) > 400 {
			l = l[:400]
		}
		fmt.Println(l)
	}
}

// TestDebugS02 prints one "two siblings of an immutable deployment unbound concurrently" story (development aid).
func TestDebugS02(t *testing.T) {
	if os.Getenv("VERIF_DEBUG_S02") == "" {
		t.Skip()
	}
	topo := Topo{Pools: []PoolT{{NodeSubnets: []string{"10.49.27.0/24"}, Subnet: "10.0.70.0/24", Gateway: "10.0.70.1",
		Ranges: [][2]uint32{{0x0a004602, 0x0a004608}}}}, Nodes: []NodeT{{Name: "n0", IP: "10.49.27.3"}}}
	var story []Op
	for i := 0; i < 3; i++ {
		story = append(story, Op{K: "create"}, Op{K: "sched", B: 63})
	}
	story = append(story, Op{K: "scale", B: 2}, Op{K: "delete"}, Op{K: "delete"})
	for i := 0; i < 14; i++ {
		story = append(story, Op{K: "deliver"})
	}
	var sch []int
	for i := 0; i < 60; i++ {
		sch = append(sch, i%2)
	}
	story = append(story, Op{K: "episode", Sub: []Op{{K: "unbind"}, {K: "unbind"}}, Sched: sch})
	c := Case{Topo: topo, WLs: []WL{{Kind: "dp", Name: "dz", Policy: "immutable", Replicas: 3}}, NoNameReuse: true, Ops: story}
	r := &vcore.Rec{}
	o := &ObsC03{}
	_, f := runHistory(c, r, o)
	fmt.Println("failure:", f, "excess:", o.ConcurrentExcess)
	for _, l := range r.Trace() {
		if len(l) > 300 {
			l = l[:300]
		}
		fmt.Println(l)
	}
}
