package ipamsim

import (
	"fmt"
	"os"
	"testing"

	"pgregory.net/rapid"
	"verifharness/vcore"
)

// TestDebugTrace prints the trace of a few generated histories (development aid).
func TestDebugTrace(t *testing.T) {
	if os.Getenv("VERIF_DEBUG") == "" {
		t.Skip()
	}
	n := 0
	rapid.Check(t, func(rt *rapid.T) {
		c := GenHistory(rt, c03Params)
		r := &vcore.Rec{}
		o := &ObsC03{}
		x, f := runHistory(c, r, o)
		n++
		if n%40 == 0 {
			fmt.Printf("---- case wls=%+v keeps=%d releases=%d sd=%v f=%v\n", c.WLs, o.Keeps, o.Releases, o.ScaleOrDelete, f)
			for _, l := range r.Trace() {
				if len(l) > 260 {
					l = l[:260]
				}
				fmt.Println(l)
			}
		}
		_ = x
	})
}
