package ipamsim

import (
	"fmt"
	"os"
	"testing"

	"pgregory.net/rapid"
	"verifharness/vcore"
)

// TestDebugTrace prints the trace of a few generated histories (development aid).
func TestDebugTrace(t *testing.T) {
	if os.Getenv("VERIF_DEBUG") == "" {
		t.Skip()
	}
	n := 0
	rapid.Check(t, func(rt *rapid.T) {
		c := GenHistory(rt, c03Params)
		r := &vcore.Rec{}
		o := &ObsC03{}
		x, f := runHistory(c, r, o)
		n++
		if n%40 == 0 {
			fmt.Printf("---- case wls=%+v keeps=%d releases=%d sd=%v f=%v\n", c.WLs, o.Keeps, o.Releases, o.ScaleOrDelete, f)
			for _, l := range r.Trace() {
				if len(l) > 260 {
					l = l[:260]
				}
				fmt.Println(l)
			}
		}
		_ = x
	})
}

// TestDebugEnumConvoy enumerates all schedules of generated "release race" episodes (development aid for seed e04).
func TestDebugEnumConvoy(t *testing.T) {
	if os.Getenv("VERIF_DEBUG_ENUM") == "" {
		t.Skip()
	}
	tried := 0
	rapid.Check(t, func(rt *rapid.T) {
		c := GenHistory(rt, c04Params)
		if !c.Lag {
			return
		}
		last := -1
		for i, op := range c.Ops {
			if op.K == "episode" && len(op.Sub) == 4 && op.Sub[2].K == "synclister" {
				last = i
				break
			}
		}
		if last < 0 {
			return
		}
		c.Ops = c.Ops[:last+1]
		c.FaultAt = nil
		tried++
		f := enumerate(c, func() []Observer { return []Observer{&ObsC04{}} })
		if f != nil {
			fmt.Printf("FOUND after %d episodes: %s %s\n", tried, f.Sig, f.Msg)
			for _, l := range f.Trace {
				if len(l) > 600 {
					l = l[:600]
				}
				fmt.Println(l)
			}
			rt.Fatalf("found")
		}
	})
	fmt.Println("episodes enumerated:", tried)
}
