package ipamsim

import (
	"bytes"
	"encoding/json"
	"fmt"
	"net/http"
	"net/http/httptest"
	neturl "net/url"
	"sort"
	"strings"

	"github.com/emicklei/go-restful"
	corev1 "k8s.io/api/core/v1"
	"tkestack.io/galaxy/pkg/ipam/api"
	"tkestack.io/galaxy/pkg/ipam/apis/galaxy/v1alpha1"
	"verifharness/vcore"
)

// Op is one operation of a history. Picks (A,B,C) are abstract: they are resolved modulo the candidates that
// exist when the op executes, so shrinking never makes later ops ill-formed.
type Op struct {
	K     string `json:"k"`
	A     int    `json:"a,omitempty"`
	B     int    `json:"b,omitempty"`
	C     int    `json:"c,omitempty"`
	Sub   []Op   `json:"sub,omitempty"`   // episode: operations run concurrently
	Sched []int  `json:"sched,omitempty"` // episode: scheduler decisions
}

type PoolObj struct {
	Name string `json:"name"`
	Size int    `json:"size"`
}

type FaultAt struct {
	Op int `json:"op"` // index of the op during which the fault is armed
	Fault
}

// Case is a complete, replayable history.
// StartupCase is the C07 start-up scenario (see c07s_test.go)
type StartupCase struct {
	Size int    `json:"size"` // Pool object size
	Pods int    `json:"pods"` // pods of the deployment asking for an IP one after the other
	Slow string `json:"slow"` // resource whose initial list is slow ("" = none)
	MS   int    `json:"ms"`
}

type Case struct {
	// Startup: not a history but a start-up scenario of C07
	Startup   *StartupCase `json:"startup,omitempty"`
	Topo      Topo         `json:"topo"`
	Configs   [][]PoolT    `json:"configs,omitempty"` // alternative configurations for reload ops
	WLs       []WL         `json:"wls"`
	PoolObjs  []PoolObj    `json:"pool_objs,omitempty"`
	Ops       []Op         `json:"ops"`
	Cloud     bool         `json:"cloud,omitempty"`
	CloudFail []int        `json:"cloud_fail,omitempty"` // indexes of provider calls that fail cleanly
	Lag       bool         `json:"lag,omitempty"`
	FaultAt   *FaultAt     `json:"fault_at,omitempty"`
	CrFail    []int        `json:"cr_fail,omitempty"` // indexes of custom-resource replica lookups that fail with an internal error
	// NoNameReuse: a pod name is used by one incarnation only (deployment pods get random name suffixes)
	NoNameReuse bool `json:"no_name_reuse,omitempty"`
}

// OpResult is what an executed op produced.
type OpResult struct {
	NoOp       bool
	Pod        *PodRec
	Nodes      []string // filter result
	Err        error
	Crashed    bool
	HTTPCode   int
	Body       string
	Released   []string
	Entry      *api.FloatingIP
	Info       string
	Before     *Snapshot // IPAM state right before the op's galaxy-ipam call
	BeforeBind *Snapshot // for sched: state between Filter and Bind
	After      *Snapshot // state after Filter (sched/filter ops)
	UnbindPod  *corev1.Pod
	Concurrent bool // ran inside an episode with >= 2 tasks
	BoundNow   bool // the pod's binding was applied by this op
}

// Snapshot is a copy of the IPAM memory.
type Snapshot struct {
	Alloc   map[string]SnapFIP
	Unalloc map[string]bool
}

type SnapFIP struct {
	Key, UID, Node string
	Policy         uint16
	Reserved       bool
}

func (w *World) Snap() *Snapshot {
	a, u := w.Tables()
	s := &Snapshot{Alloc: map[string]SnapFIP{}, Unalloc: map[string]bool{}}
	for ip, f := range a {
		_, res := f.Labels["reserved"]
		s.Alloc[ip] = SnapFIP{Key: f.Key, UID: f.PodUid, Node: f.NodeName, Policy: f.Policy, Reserved: res}
	}
	for ip := range u {
		s.Unalloc[ip] = true
	}
	return s
}

func (s *Snapshot) ByKey(key string) []string {
	var out []string
	for ip, f := range s.Alloc {
		if f.Key == key {
			out = append(out, ip)
		}
	}
	sort.Slice(out, func(i, j int) bool { return ipLess(out[i], out[j]) })
	return out
}

// Observer is an oracle plugged into the executor.
type Observer interface {
	// AfterOp runs after every completed top-level op (quiescent with respect to galaxy-ipam calls).
	AfterOp(x *Exec, i int, op Op, res *OpResult) *vcore.Failure
	// AfterStep runs after every scheduler step inside a concurrent episode.
	AfterStep(x *Exec) *vcore.Failure
}

// Exec is one execution of a case.
type Exec struct {
	W           *World
	C           *Case
	Rec         *vcore.Rec
	Obs         []Observer
	ConfInForce []PoolT // configuration the running IPAM has loaded
	confIdx     int
	container   *restful.Container
	Stats       map[string]int
	InEpisode   bool
	failure     *vcore.Failure
	OpIndex     int
	// configurations that reload ops of the current top-level op / episode are switching to
	ReloadTargets [][]PoolT
	ConfAtOpStart []PoolT
	LastQuiescent *Snapshot       // IPAM memory at the start of the current top-level op
	CurSubs       []Op            // the sub-operations of the episode whose results are being handed to the observers (nil otherwise)
	Reserved      map[string]bool // IPs an administrator currently reserves with a labelled FloatingIP
	// MixedKeys: pod keys that at some point held IPs recorded with two different pod uids (an IP of an older
	// incarnation re-allocated by the pod-IP sync of a stale update event); LastKey: last owner key seen per IP
	MixedKeys map[string]bool
	LastKey   map[string]string
	LastTaken [][2]int        // scheduler decisions (choice, number of choices) of the last episode executed
	dropped   map[string]bool // IPs that some reload (or restart onto another configuration) removed from the configuration
	// bookkeeping for oracles
	LastResults []*OpResult
}

func (x *Exec) count(k string) { x.Stats[k]++ }

// NewExec builds the world of a case.
func NewExec(c *Case, rec *vcore.Rec, obs ...Observer) (*Exec, error) {
	w, err := NewWorld(c.Topo, c.Cloud, c.Lag)
	if err != nil {
		return nil, err
	}
	x := &Exec{W: w, C: c, Rec: rec, Obs: obs, ConfInForce: c.Topo.Pools, Stats: map[string]int{}, Reserved: map[string]bool{}}
	if len(c.CloudFail) > 0 {
		max := 0
		for _, i := range c.CloudFail {
			if i > max {
				max = i
			}
		}
		plan := make([]bool, max+1)
		for _, i := range c.CloudFail {
			if i >= 0 {
				plan[i] = true
			}
		}
		w.Cloud.failPlan = plan
	}
	w.CrFail = c.CrFail
	for i := range c.WLs {
		if !c.WLs[i].NoObject && c.WLs[i].Kind != "bare" {
			w.SetWorkload(&c.WLs[i], c.WLs[i].Replicas)
		}
	}
	for _, p := range c.PoolObjs {
		w.SetPool(p.Name, p.Size)
	}
	x.buildAPI()
	return x, nil
}

func (x *Exec) buildAPI() {
	w := x.W
	ws := new(restful.WebService)
	ws.Path("/v1").Consumes(restful.MIME_JSON).Produces(restful.MIME_JSON)
	ws.Route(ws.GET("/ip").To(func(r *restful.Request, resp *restful.Response) {
		api.NewController(w.Plugin.GetIpam(), w.Plugin.PodLister, w.Plugin.Release).ListIPs(r, resp)
	}))
	ws.Route(ws.POST("/ip").To(func(r *restful.Request, resp *restful.Response) {
		api.NewController(w.Plugin.GetIpam(), w.Plugin.PodLister, w.Plugin.Release).ReleaseIPs(r, resp)
	}))
	pc := func() *api.PoolController {
		return &api.PoolController{PoolLister: w.Plugin.PoolLister, Client: w.Plugin.GalaxyClient,
			LockPoolFunc: w.Plugin.LockDpPool, IPAM: w.Plugin.GetIpam()}
	}
	ws.Route(ws.GET("/pool/{name}").To(func(r *restful.Request, resp *restful.Response) { pc().Get(r, resp) }))
	ws.Route(ws.POST("/pool").To(func(r *restful.Request, resp *restful.Response) { pc().CreateOrUpdate(r, resp) }))
	ws.Route(ws.DELETE("/pool/{name}").To(func(r *restful.Request, resp *restful.Response) { pc().Delete(r, resp) }))
	x.container = restful.NewContainer()
	x.container.Add(ws)
}

// everDropped tells whether a reload ever ran with a configuration that does not contain the IP.
func (x *Exec) everDropped(ip string) bool { return x.dropped[ip] }

func (x *Exec) noteConfig(pools []PoolT) {
	if x.dropped == nil {
		x.dropped = map[string]bool{}
	}
	all := AllIPsOf(pools)
	for ip := range x.C.Topo.AllIPs() {
		if _, ok := all[ip]; !ok {
			x.dropped[ip] = true
		}
	}
	for _, c := range x.C.Configs {
		for ip := range AllIPsOf(c) {
			if _, ok := all[ip]; !ok {
				x.dropped[ip] = true
			}
		}
	}
}

// trackMixed maintains MixedKeys / LastKey (classification of a known finding, see known_findings.txt).
func (x *Exec) trackMixed() {
	alloc, _, ok := x.W.TryTables()
	if !ok {
		return
	}
	if x.MixedKeys == nil {
		x.MixedKeys, x.LastKey = map[string]bool{}, map[string]string{}
	}
	uidOf := map[string]string{}
	for ip, f := range alloc {
		x.LastKey[ip] = f.Key
		if f.PodUid == "" || f.Key == "" {
			continue
		}
		if u, ok := uidOf[f.Key]; ok && u != f.PodUid {
			x.MixedKeys[f.Key] = true
		}
		uidOf[f.Key] = f.PodUid
	}
}

// HTTP performs a request against the real API routes (in-process).
func (x *Exec) HTTP(method, url string, body []byte) (int, string) {
	var rd *bytes.Reader
	if body != nil {
		rd = bytes.NewReader(body)
	} else {
		rd = bytes.NewReader(nil)
	}
	if _, err := neturl.ParseRequestURI(url); err != nil {
		return 400, "malformed request line (rejected by the HTTP server before any handler runs)"
	}
	for _, ch := range url {
		if ch <= ' ' || ch >= 0x7f {
			return 400, "malformed request line (rejected by the HTTP server before any handler runs)"
		}
	}
	req := httptest.NewRequest(method, url, rd)
	req.Header.Set("Content-Type", "application/json")
	req.Header.Set("Accept", "application/json")
	rw := httptest.NewRecorder()
	x.container.ServeHTTP(rw, req)
	return rw.Code, rw.Body.String()
}

// ---- candidate selection ----

func (x *Exec) existingPods(filter func(*PodRec) bool) []*PodRec {
	var out []*PodRec
	for _, p := range x.W.Pods {
		if p.Deleted {
			continue
		}
		if filter == nil || filter(p) {
			out = append(out, p)
		}
	}
	sort.Slice(out, func(i, j int) bool { return out[i].Name < out[j].Name })
	return out
}

func pick(n, a int) int {
	if a < 0 {
		a = -a
	}
	return a % n
}

func (x *Exec) nodeNames() []string {
	var out []string
	for _, n := range x.W.Topo.Nodes {
		out = append(out, n.Name)
	}
	return out
}

func (x *Exec) candSet(mask int) []string {
	all := x.nodeNames()
	var out []string
	for i, n := range all {
		if mask&(1<<uint(i)) != 0 {
			out = append(out, n)
		}
	}
	if len(out) == 0 {
		out = all
	}
	return out
}

func (x *Exec) wl(p *PodRec) *WL { return &x.C.WLs[p.WL] }

// opClosure resolves an op into a closure performing its galaxy-ipam call(s) (nil if the op is a harness-only
// action or has no candidate) plus a name. Harness-only parts run immediately.
func (x *Exec) opClosure(op Op, res *OpResult) (string, func()) {
	switch op.K {
	case "filter", "sched":
		cands := x.existingPods(func(p *PodRec) bool { return !p.Bound && p.Live() })
		if len(cands) == 0 {
			res.NoOp = true
			return "", nil
		}
		p := cands[pick(len(cands), op.A)]
		res.Pod = p
		return "filter:" + p.Name, x.schedFn(p, op, res)
	case "newsched":
		// a controller creates a pod and the scheduler schedules it, all while the other tasks of the episode are under way: which
		// pod it is (possibly a new incarnation of a name whose reservation another task is working on) is decided when the task runs
		return "newsched", func() {
			cres := &OpResult{}
			ck := "create"
			if op.B%2 == 1 {
				ck = "createreused"
			}
			x.harnessOp(Op{K: ck, A: op.A, B: op.B, C: op.C}, cres)
			if cres.Pod == nil {
				res.NoOp = true
				return
			}
			res.Pod = cres.Pod
			x.schedFn(cres.Pod, Op{K: "sched", B: 63, C: op.C}, res)()
			res.Info = "created " + cres.Info + " " + res.Info
		}
	}
	return x.opClosure2(op, res)
}

// schedFn is the filter (and, for "sched", the bind) of pod p.
func (x *Exec) schedFn(p *PodRec, op Op, res *OpResult) func() {
	w := x.W
	nodes := x.candSet(op.B)
	pod := w.truthPod(p.Name)
	return func() {
		res.Before = w.Snap()
		var ns []corev1.Node
		for _, c := range nodes {
			for _, n := range w.Topo.Nodes {
				if n.Name == c {
					ns = append(ns, *n.Object())
				}
			}
		}
		out, _, err := w.Plugin.Filter(pod.DeepCopy(), ns)
		res.Err = err
		res.Nodes = nil
		for _, n := range out {
			res.Nodes = append(res.Nodes, n.Name)
		}
		res.Info = fmt.Sprintf("cands=%v", nodes)
		w.mu.Lock()
		if err == nil && len(res.Nodes) > 0 {
			p.Filtered = res.Nodes
			p.FilterOn = w.PluginGen
		} else {
			p.Filtered = nil
		}
		w.mu.Unlock()
		res.After = w.Snap()
		if op.K == "sched" && err == nil && len(res.Nodes) > 0 {
			node := res.Nodes[pick(len(res.Nodes), op.C)]
			res.BeforeBind = w.Snap()
			res.Err = w.Plugin.Bind(bindArgs(p, node))
			res.BoundNow = res.Err == nil && p.Bound
			w.mu.Lock()
			p.Filtered = nil // a filter result is consumed by one bind attempt; the scheduler filters again before retrying
			w.mu.Unlock()
			res.Info += " bind=" + node
		}
	}
}

func (x *Exec) opClosure2(op Op, res *OpResult) (string, func()) {
	w := x.W
	switch op.K {
	case "bind", "bindgone":
		cands := x.existingPods(func(p *PodRec) bool { return !p.Bound && p.Live() && len(p.Filtered) > 0 })
		if op.K == "bindgone" {
			// the scheduler's bind request for a pod that was deleted after its filter (the request was in flight): galaxy-ipam's pod
			// cache may still hold the pod, the API server answers the binding with NotFound
			cands = nil
			for _, p := range x.W.Pods {
				if p.Deleted && !p.Bound && len(p.Filtered) > 0 {
					cands = append(cands, p)
				}
			}
			sort.Slice(cands, func(i, j int) bool { return cands[i].Name < cands[j].Name })
		}
		if len(cands) == 0 {
			res.NoOp = true
			return "", nil
		}
		p := cands[pick(len(cands), op.A)]
		res.Pod = p
		node := p.Filtered[pick(len(p.Filtered), op.B)]
		return "bind:" + p.Name, func() {
			res.Before = w.Snap()
			res.BeforeBind = res.Before
			res.Err = w.Plugin.Bind(bindArgs(p, node))
			res.BoundNow = res.Err == nil && p.Bound
			w.mu.Lock()
			p.Filtered = nil
			w.mu.Unlock()
			res.Info = "bind=" + node
		}
	case "unbind":
		if len(w.Pending) == 0 {
			res.NoOp = true
			return "", nil
		}
		i := pick(len(w.Pending), op.A)
		pu := w.Pending[i]
		w.Pending = append(w.Pending[:i:i], w.Pending[i+1:]...)
		res.Info = "unbind " + pu.pod.Name + " uid=" + string(pu.pod.UID)
		res.UnbindPod = pu.pod
		return "unbind:" + pu.pod.Name, func() {
			res.Before = w.Snap()
			err := w.Plugin.VerifUnbind(pu.pod)
			res.Err = err
			if err != nil {
				pu.retry++
				if pu.retry <= 3 {
					w.mu.Lock()
					w.Pending = append(w.Pending, pu)
					w.mu.Unlock()
				}
			}
		}
	case "deliverlate":
		// like deliver, but the cache update and the choice of the event happen when the task runs (inside an episode: after
		// other tasks have already read the cache)
		return "deliverlate", func() {
			w.mu.Lock()
			for len(w.q2) == 0 && len(w.q1) > 0 {
				w.syncPodListerLocked(1)
			}
			if len(w.q2) == 0 {
				w.mu.Unlock()
				res.NoOp = true
				return
			}
			ev := w.q2[0]
			w.q2 = w.q2[1:]
			w.mu.Unlock()
			if ev.Old != nil {
				res.Info = ev.Kind + " " + ev.Old.Name
			}
			if ev.Kind == "update" {
				_ = w.Plugin.UpdatePod(ev.Old, ev.New)
			} else {
				_ = w.Plugin.DeletePod(ev.Old)
			}
			w.mu.Lock()
			w.CollectUnreleased()
			w.mu.Unlock()
		}
	case "unbindlate":
		// like unbind, but the queued unbind is picked when the task starts running: inside an episode it can take what an
		// event delivered earlier in the same episode has queued
		return "unbindlate", func() {
			w.mu.Lock()
			if len(w.Pending) == 0 {
				w.mu.Unlock()
				res.NoOp = true
				return
			}
			i := pick(len(w.Pending), op.A)
			pu := w.Pending[i]
			w.Pending = append(w.Pending[:i:i], w.Pending[i+1:]...)
			w.mu.Unlock()
			res.Info = "unbind " + pu.pod.Name + " uid=" + string(pu.pod.UID)
			res.UnbindPod = pu.pod
			res.Before = w.Snap()
			err := w.Plugin.VerifUnbind(pu.pod)
			res.Err = err
			if err != nil {
				pu.retry++
				if pu.retry <= 3 {
					w.mu.Lock()
					w.Pending = append(w.Pending, pu)
					w.mu.Unlock()
				}
			}
		}
	case "resync":
		return "resync", func() {
			res.Before = w.Snap()
			res.Err = w.Plugin.VerifResyncPod()
		}
	case "syncips":
		return "syncips", func() { w.Plugin.VerifSyncPodIPs() }
	case "reload":
		if len(x.C.Configs) == 0 {
			res.NoOp = true
			return "", nil
		}
		idx := pick(len(x.C.Configs), op.A)
		w.SetConfig(ConfigTextOf(x.C.Configs[idx]))
		res.Info = fmt.Sprintf("config %d", idx)
		x.ReloadTargets = append(x.ReloadTargets, x.C.Configs[idx])
		return "reload", func() {
			_, err := w.Plugin.VerifUpdateConfigMap()
			if err != nil {
				// the configmap poll loop comes round again (every minute) and finds the same text still unapplied
				x.Rec.Logf("      reload failed (%v), polled again", err)
				x.count("reload_retried")
				_, err = w.Plugin.VerifUpdateConfigMap()
			}
			res.Err = err
			if err == nil {
				w.mu.Lock()
				x.ConfInForce = x.C.Configs[idx]
				x.confIdx = idx
				x.noteConfig(x.ConfInForce)
				for ip := range x.Reserved {
					if !inConfig(x.ConfInForce, ip) {
						delete(x.Reserved, ip) // the reload deleted the object of an IP that is not configured any more
					}
				}
				w.mu.Unlock()
			}
		}
	case "apirelease", "apireleasable":
		// apireleasable: the administrator picks among the entries the list shows as releasable (their pod is gone)
		return "apirelease", func() { x.apiRelease(op, res) }
	case "poolapi":
		if len(x.C.PoolObjs) == 0 {
			res.NoOp = true
			return "", nil
		}
		po := x.C.PoolObjs[pick(len(x.C.PoolObjs), op.A)]
		body, _ := json.Marshal(api.Pool{Name: po.Name, Size: pick(6, op.B), PreAllocateIP: op.C%2 == 1})
		res.Info = string(body)
		return "poolapi:" + po.Name, func() {
			res.HTTPCode, res.Body = x.HTTP("POST", "/v1/pool", body)
			w.SyncPoolLister()
		}
	case "deliver":
		w.mu.Lock()
		for len(w.q2) == 0 && len(w.q1) > 0 {
			w.syncPodListerLocked(1)
		}
		if len(w.q2) == 0 {
			w.mu.Unlock()
			res.NoOp = true
			return "", nil
		}
		ev := w.q2[0]
		w.q2 = w.q2[1:]
		w.mu.Unlock()
		name := ""
		if ev.Old != nil {
			name = ev.Old.Name
		}
		res.Info = ev.Kind + " " + name
		return "deliver:" + name, func() {
			if ev.Kind == "update" {
				_ = w.Plugin.UpdatePod(ev.Old, ev.New)
			} else {
				_ = w.Plugin.DeletePod(ev.Old)
			}
			w.mu.Lock()
			w.CollectUnreleased()
			w.mu.Unlock()
		}
	case "fipevent":
		if len(x.W.FipEvents) == 0 {
			res.NoOp = true
			return "", nil
		}
		ev := x.W.FipEvents[0]
		x.W.FipEvents = x.W.FipEvents[1:]
		res.Info = fmt.Sprintf("fip add=%v %s", ev.Add, ev.Obj.Name)
		return "fipevent", func() { w.DeliverFIPEvent(ev.Add, ev.Obj) }
	}
	return "", nil
}

func (x *Exec) apiRelease(op Op, res *OpResult) {
	code, body := x.HTTP("GET", "/v1/ip?size=9999", nil)
	if code != 200 {
		res.HTTPCode, res.Body = code, body
		return
	}
	var lr api.ListIPResp
	if err := json.Unmarshal([]byte(body), &lr); err != nil {
		res.Err = err
		return
	}
	var cands []api.FloatingIP
	for _, e := range lr.Content {
		if e.PodName != "" || e.AppName != "" || e.PoolName != "" {
			cands = append(cands, e)
		}
	}
	if op.K == "apireleasable" {
		var rel []api.FloatingIP
		for _, e := range cands {
			if e.Releasable {
				rel = append(rel, e)
			}
		}
		if len(rel) > 0 {
			cands = rel
		}
	}
	if len(cands) == 0 {
		res.NoOp = true
		return
	}
	e := cands[pick(len(cands), op.A)]
	res.Entry = &e
	req, _ := json.Marshal(api.ReleaseIPReq{IPs: []api.FloatingIP{e}})
	res.HTTPCode, res.Body = x.HTTP("POST", "/v1/ip", req)
	res.Info = fmt.Sprintf("release %s releasable=%v status=%s -> %d", e.IP, e.Releasable, e.Status, res.HTTPCode)
}

// harnessOp executes ops that do not call into galaxy-ipam. Returns true if handled.
func (x *Exec) harnessOp(op Op, res *OpResult) bool {
	w := x.W
	switch op.K {
	case "create", "createreused":
		// construction over filtering: pick among the pod slots that do not exist right now
		type slot struct {
			wi   int
			name string
		}
		var absent []slot
		for wi := range x.C.WLs {
			wl := &x.C.WLs[wi]
			slots := 3
			if wl.Kind == "dp" {
				slots = 6
			}
			for j := 0; j < slots; j++ {
				n := wl.PodName(j)
				if x.C.NoNameReuse && w.Pods[n] != nil {
					continue
				}
				if w.truthPod(n) == nil {
					absent = append(absent, slot{wi, n})
				}
			}
		}
		if op.K == "createreused" {
			// the controller re-creates a pod that existed before (statefulset / tapp pods keep their names)
			var again []slot
			for _, sl := range absent {
				if w.Pods[sl.name] != nil {
					again = append(again, sl)
				}
			}
			if len(again) > 0 {
				absent = again
			}
		}
		if len(absent) == 0 {
			res.NoOp = true
			return true
		}
		sl := absent[pick(len(absent), op.A*7+op.B)]
		p := w.CreatePod(sl.wi, x.templateOf(sl.wi, op.C), sl.name)
		if p == nil {
			res.NoOp = true
		} else {
			res.Pod = p
			res.Info = sl.name + " " + p.UID
		}
	case "recreate":
		// delete an existing pod and immediately create a new incarnation with the same name (statefulset
		// controllers do exactly this)
		c := x.existingPods(nil)
		if len(c) == 0 || x.C.NoNameReuse {
			res.NoOp = true
			return true
		}
		old := c[pick(len(c), op.A)]
		w.DeletePod(old.Name)
		p := w.CreatePod(old.WL, x.templateOf(old.WL, op.C), old.Name)
		res.Pod = p
		res.Info = old.Name + " " + old.UID + " -> " + p.UID
	case "phase":
		c := x.existingPods(nil)
		if len(c) == 0 {
			res.NoOp = true
			return true
		}
		p := c[pick(len(c), op.A)]
		ph := []corev1.PodPhase{corev1.PodRunning, corev1.PodSucceeded, corev1.PodFailed}[pick(3, op.B)]
		if p.Phase == corev1.PodSucceeded || p.Phase == corev1.PodFailed {
			res.NoOp = true // finished pods do not come back
			return true
		}
		if ph == corev1.PodRunning && !p.Bound {
			res.NoOp = true // only scheduled pods run
			return true
		}
		w.SetPhase(p.Name, ph)
		res.Pod = p
		res.Info = p.Name + " -> " + string(ph)
	case "terminate":
		// graceful deletion begins: deletion timestamp set, the pod still runs with its address
		c := x.existingPods(nil)
		if len(c) == 0 {
			res.NoOp = true
			return true
		}
		p := c[pick(len(c), op.A)]
		if !p.Bound || !p.Live() || !w.SetTerminating(p.Name) {
			res.NoOp = true
			return true
		}
		res.Pod = p
		res.Info = p.Name + " terminating"
	case "delete":
		c := x.existingPods(nil)
		if len(c) == 0 {
			res.NoOp = true
			return true
		}
		p := c[pick(len(c), op.A)]
		w.DeletePod(p.Name)
		res.Pod = p
		res.Info = p.Name
	case "drop":
		w.mu.Lock()
		for len(w.q2) == 0 && len(w.q1) > 0 {
			w.syncPodListerLocked(1)
		}
		if len(w.q2) == 0 {
			res.NoOp = true
		} else {
			res.Info = w.q2[0].Kind
			w.q2 = w.q2[1:]
		}
		w.mu.Unlock()
	case "synclister":
		if w.SyncPodLister(1+pick(3, op.A)) == 0 {
			res.NoOp = true
		}
	case "scale":
		wi := pick(len(x.C.WLs), op.A)
		wl := &x.C.WLs[wi]
		if wl.Kind == "bare" {
			res.NoOp = true
			return true
		}
		if ok, _ := w.WorkloadView(wl); !ok {
			res.NoOp = true
			return true
		}
		r := pick(4, op.B)
		w.SetWorkload(wl, r)
		res.Info = fmt.Sprintf("%s -> %d", wl.Name, r)
	case "delwl":
		wi := pick(len(x.C.WLs), op.A)
		wl := &x.C.WLs[wi]
		if ok, _ := w.WorkloadView(wl); !ok {
			res.NoOp = true
			return true
		}
		w.SetWorkload(wl, -1)
		res.Info = wl.Name
	case "mkwl":
		wi := pick(len(x.C.WLs), op.A)
		wl := &x.C.WLs[wi]
		if ok, _ := w.WorkloadView(wl); ok || wl.Kind == "bare" {
			res.NoOp = true
			return true
		}
		w.SetWorkload(wl, 1+pick(3, op.B))
		res.Info = wl.Name
	case "poolobj":
		if len(x.C.PoolObjs) == 0 {
			res.NoOp = true
			return true
		}
		po := x.C.PoolObjs[pick(len(x.C.PoolObjs), op.A)]
		size := pick(7, op.B) - 1
		w.SetPool(po.Name, size)
		res.Info = fmt.Sprintf("%s -> %d", po.Name, size)
	case "reserve":
		// an administrator creates a labelled FloatingIP for a currently free, configured IP
		_, un := w.Tables()
		var free []string
		store := w.StoreList()
		for ip := range un {
			if _, ok := store[ip]; !ok {
				free = append(free, ip)
			}
		}
		if len(free) == 0 {
			res.NoOp = true
			return true
		}
		sort.Slice(free, func(i, j int) bool { return ipLess(free[i], free[j]) })
		ip := free[pick(len(free), op.A)]
		if err := w.AddReserved(ip); err != nil {
			res.NoOp = true
			return true
		}
		obj, _ := w.Galaxy.Tracker().Get(fipGVR, "", ip)
		x.W.FipEvents = append(x.W.FipEvents, FipEvent{true, obj.(*v1alpha1.FloatingIP)})
		x.Reserved[ip] = true
		res.Info = ip
	case "unreserve":
		var resv []string
		for ip, f := range w.StoreList() {
			if f.Reserved {
				resv = append(resv, ip)
			}
		}
		if len(resv) == 0 {
			res.NoOp = true
			return true
		}
		sort.Strings(resv)
		ip := resv[pick(len(resv), op.A)]
		obj, _ := w.Galaxy.Tracker().Get(fipGVR, "", ip)
		_ = w.DelReserved(ip)
		x.W.FipEvents = append(x.W.FipEvents, FipEvent{false, obj.(*v1alpha1.FloatingIP)})
		delete(x.Reserved, ip)
		res.Info = ip
	case "restart", "restartstale":
		restart := w.Restart
		if op.K == "restartstale" && x.C.Lag {
			restart = func() error { return w.RestartStale(pick(5, op.A)) }
		}
		if err := restart(); err != nil {
			res.Err = err
		}
		x.W.FipEvents = nil // a fresh informer lists the store; the new IPAM read it in ConfigurePool
		x.ConfInForce = x.currentConfigFromCM()
		x.buildAPI()
	default:
		return false
	}
	return true
}

func (x *Exec) currentConfigFromCM() []PoolT {
	// the configuration a restarted plugin loads is whatever the ConfigMap holds now
	obj, err := x.W.Kube.Tracker().Get(cmGVR, CMNs, CMName)
	if err != nil {
		return x.ConfInForce
	}
	text := obj.(*corev1.ConfigMap).Data[CMKey]
	if text == x.W.Topo.ConfigText() {
		return x.W.Topo.Pools
	}
	for _, c := range x.C.Configs {
		if ConfigTextOf(c) == text {
			return c
		}
	}
	return x.ConfInForce
}

func describe(op Op) string {
	s := op.K
	if op.A != 0 || op.B != 0 || op.C != 0 {
		s += fmt.Sprintf("(%d,%d,%d)", op.A, op.B, op.C)
	}
	return s
}

// canonKind maps the variants of an operation kind (same galaxy-ipam entry point, different choice of the target) to the kind the
// observers know.
func canonKind(k string) string {
	switch k {
	case "newsched":
		return "sched"
	case "apireleasable":
		return "apirelease"
	case "createreused":
		return "create"
	case "restartstale":
		return "restart"
	case "bindgone":
		return "bind"
	case "terminate":
		return "phase" // an update of a pod that stays alive
	}
	return k
}

// Run executes the whole history; returns the first oracle failure.
func (x *Exec) Run() *vcore.Failure {
	for i, op := range x.C.Ops {
		x.OpIndex = i
		x.W.step++
		x.W.curOp = i
		if f := x.runOne(i, op); f != nil {
			f.Trace = append(x.Rec.Trace(), "FAILED at op "+fmt.Sprint(i)+": "+f.Msg)
			return f
		}
	}
	return nil
}

func (x *Exec) runOne(i int, op Op) *vcore.Failure {
	w := x.W
	res := &OpResult{}
	x.ReloadTargets = nil
	x.ConfAtOpStart = x.ConfInForce
	x.LastQuiescent = w.Snap()
	x.CurSubs = nil
	if op.K == "quiesce" {
		return x.quiesce(i, op)
	}
	if op.K == "episode" {
		return x.episode(i, op)
	}
	armed := false
	if fa := x.C.FaultAt; fa != nil && fa.Op == i {
		f := fa.Fault
		w.ArmFault(&f)
		armed = true
	}
	if !x.harnessOp(op, res) {
		name, fn := x.opClosure(op, res)
		if fn != nil {
			res.Crashed = w.runOp(fn)
			_ = name
		} else if !res.NoOp {
			res.NoOp = true
		}
	}
	if armed {
		w.mu.Lock()
		w.fault = nil
		w.mu.Unlock()
	}
	if !res.Crashed {
		w.CollectUnreleased() // e.g. Bind queues an unbind when the binding call returns NotFound
	}
	if res.NoOp {
		x.count("noop")
		x.Rec.Logf("%3d %-12s (no-op)", i, describe(op))
		return nil
	}
	op.K = canonKind(op.K)
	x.count("op:" + op.K)
	x.logOp(i, op, res)
	if res.Crashed {
		x.count("crash")
		// the process died: restart
		if err := w.Restart(); err != nil {
			return vcore.Failf("harness:restart", "restart after crash failed: %v", err)
		}
		x.W.FipEvents = nil
		x.ConfInForce = x.currentConfigFromCM()
		x.buildAPI()
		x.Rec.Logf("    -- crashed, restarted: %s", w.DumpState())
	}
	x.trackMixed()
	for _, o := range x.Obs {
		if f := o.AfterOp(x, i, op, res); f != nil {
			return f
		}
	}
	return nil
}

func (x *Exec) logOp(i int, op Op, res *OpResult) {
	errs := ""
	if res.Err != nil {
		errs = " err=" + res.Err.Error()
		if len(errs) > 160 {
			errs = errs[:160]
		}
	}
	nodes := ""
	if op.K == "filter" || op.K == "sched" {
		nodes = fmt.Sprintf(" nodes=%v", res.Nodes)
	}
	pod := ""
	if res.Pod != nil {
		pod = " pod=" + res.Pod.Name + "/" + res.Pod.UID
		if res.Pod.Bound {
			pod += fmt.Sprintf(" bound(%s %v)", res.Pod.Node, res.Pod.Payload)
		}
	}
	x.Rec.Logf("%3d %-12s%s%s %s%s => %s", i, describe(op), pod, nodes, res.Info, errs, x.W.DumpState())
}

// templateOf returns the workload as its pod template stands for a new incarnation: an odd pick uses the edited request_ip_range.
func (x *Exec) templateOf(wlIdx, pickC int) *WL {
	wl := &x.C.WLs[wlIdx]
	if len(wl.AltRanges) == 0 || pickC%2 == 0 {
		return wl
	}
	cp := *wl
	cp.Ranges = wl.AltRanges
	return &cp
}

// quiesce: deliver everything, run all unbinds fault-free until none is pending, sync listers, one resync pass.
func (x *Exec) quiesce(i int, op Op) *vcore.Failure {
	w := x.W
	w.SyncPodLister(1 << 30)
	sub := func(k string) (bool, *vcore.Failure) {
		res := &OpResult{}
		_, fn := x.opClosure(Op{K: k}, res)
		if fn == nil {
			return false, nil
		}
		w.runOp(fn)
		x.Rec.Logf("      quiesce/%s %s => %s", k, res.Info, w.DumpState())
		x.trackMixed()
		for _, o := range x.Obs {
			if f := o.AfterOp(x, i, Op{K: k}, res); f != nil {
				return true, f
			}
		}
		return true, nil
	}
	for n := 0; n < 10000; n++ {
		ok, f := sub("deliver")
		if f != nil {
			return f
		}
		if !ok {
			break
		}
	}
	for n := 0; n < 10000 && len(w.Pending) > 0; n++ {
		ok, f := sub("unbind")
		if f != nil {
			return f
		}
		if !ok {
			break
		}
	}
	for len(x.W.FipEvents) > 0 {
		if _, f := sub("fipevent"); f != nil {
			return f
		}
	}
	res := &OpResult{Before: w.Snap()}
	for pass := 0; pass < 4; pass++ {
		// a resync pass in which an (injected) custom-resource lookup failed rightly keeps the IPs of that app: quiescence means the
		// pass is repeated until it ran with every lookup answered
		w.mu.Lock()
		failedBefore := w.crFailed
		w.mu.Unlock()
		w.runOp(func() { res.Err = w.Plugin.VerifResyncPod() })
		w.mu.Lock()
		again := w.crFailed != failedBefore
		w.mu.Unlock()
		if !again {
			break
		}
	}
	x.count("op:quiesce")
	x.Rec.Logf("%3d quiesce => %s", i, w.DumpState())
	for _, o := range x.Obs {
		if f := o.AfterOp(x, i, op, res); f != nil {
			return f
		}
	}
	return nil
}

// episode runs the sub-ops concurrently under the cooperative scheduler.
func (x *Exec) episode(i int, op Op) *vcore.Failure {
	w := x.W
	var names []string
	var fns []func()
	var results []*OpResult
	var subs []Op
	claimed := map[string]bool{}
	single := map[string]bool{}
	for _, sub := range op.Sub {
		// single-goroutine sources in galaxy-ipam: the configmap poll loop (reload), the resync loop (resync, then
		// pod-IP sync) and the informer's handler goroutine (event delivery) never run twice at the same time
		class := map[string]string{"reload": "reload", "resync": "resync", "syncips": "resync", "deliver": "deliver", "deliverlate": "deliver", "fipevent": "fipevent"}[sub.K]
		if class != "" {
			if single[class] {
				continue
			}
			single[class] = true
		}
		res := &OpResult{}
		var name string
		var fn func()
		if sub.K == "synclister" {
			// the informer's reflector goroutine updates the pod cache concurrently with every request
			if single["reflector"] {
				continue
			}
			single["reflector"] = true
			n := 1 + pick(3, sub.A)
			name, fn = "synclister", func() {
				if w.SyncPodLister(n) == 0 {
					res.NoOp = true
				}
			}
		} else if x.harnessOp(sub, res) {
			continue // harness-only ops are not part of concurrent episodes
		} else {
			name, fn = x.opClosure(sub, res)
		}
		if fn == nil {
			continue
		}
		if res.Pod != nil && (sub.K == "sched" || sub.K == "filter" || sub.K == "bind") {
			// the scheduler never runs two filter/bind requests of one pod at the same time
			if claimed[res.Pod.Name] {
				continue
			}
			claimed[res.Pod.Name] = true
		}
		names = append(names, name)
		fns = append(fns, fn)
		results = append(results, res)
		subs = append(subs, sub)
	}
	if len(fns) == 0 {
		x.count("noop")
		return nil
	}
	s := &Scheduler{Decisions: op.Sched}
	var stepFail *vcore.Failure
	s.onStep = func() {
		if stepFail != nil {
			return
		}
		x.trackMixed()
		for _, o := range x.Obs {
			if f := o.AfterStep(x); f != nil {
				stepFail = f
				return
			}
		}
	}
	armed := false
	if fa := x.C.FaultAt; fa != nil && fa.Op == i {
		f := fa.Fault
		w.ArmFault(&f)
		armed = true
	}
	x.InEpisode = true
	w.sched = s
	s.Run(names, fns)
	w.sched = nil
	x.InEpisode = false
	if armed {
		w.mu.Lock()
		w.fault = nil
		w.mu.Unlock()
	}
	x.LastTaken = s.Taken
	x.count("op:episode")
	x.count(fmt.Sprintf("episode_tasks:%d", len(fns)))
	if s.Overlap > 0 {
		x.count("episode_overlapped")
	}
	x.Rec.Logf("%3d episode %v schedule: %s", i, names, strings.Join(s.Log, " "))
	if len(s.Panics) > 0 {
		panic(s.Panics[0]) // re-raised in the case's goroutine: the property runner turns it into a failure with the stack
	}
	if s.Deadlock {
		return vcore.Failf("deadlock", "deadlock in episode %v: %s", names, s.Log[len(s.Log)-1])
	}
	if stepFail != nil {
		return stepFail
	}
	x.CurSubs = subs
	for j, res := range results {
		res.Concurrent = len(results) >= 2
		subs[j].K = canonKind(subs[j].K)
		x.logOp(i, subs[j], res)
		for _, o := range x.Obs {
			if f := o.AfterOp(x, i, subs[j], res); f != nil {
				return f
			}
		}
	}
	return nil
}

var _ = http.StatusOK
