package ipamsim

import (
	"fmt"

	"pgregory.net/rapid"
)

// node-subnet universe: pairwise disjoint CIDRs (two pools may list the same one => "identical")
var nodeSubnetUniverse = []string{"10.49.27.0/24", "10.49.28.0/26", "10.180.1.2/32", "10.180.1.3/32", "10.173.13.0/24", "10.48.0.0/16"}

// an address inside each universe subnet, plus per-node offsets
var nodeSubnetHost = []uint32{0x0a311b03, 0x0a311c02, 0x0ab40102, 0x0ab40103, 0x0aad0d04, 0x0a300105}

type podSubnetT struct {
	cidr  string
	gw    string
	base  uint32
	vlan  uint16
	limit uint32 // last address pools may use
}

var podSubnets = []podSubnetT{
	{"10.0.70.0/24", "10.0.70.1", 0x0a004602, 0, 0x0a0046fe},
	{"10.0.80.0/24", "10.0.80.1", 0x0a005002, 3, 0x0a0050fe},
	{"192.168.64.0/22", "192.168.64.1", 0xc0a84010, 0, 0xc0a843fe},
	{"10.180.154.0/28", "10.180.154.1", 0x0ab49a02, 7, 0x0ab49a0e},
	{"172.16.0.0/12", "172.16.0.254", 0xac100005, 4094, 0xac1000f0},
}

// GenTopo draws a small valid topology.
func GenTopo(t *rapid.T, maxIPsPerPool int) Topo {
	nu := rapid.IntRange(2, 4).Draw(t, "nNodeSubnets")
	uni := rapid.Permutation([]int{0, 1, 2, 3, 4, 5}).Draw(t, "universe")[:nu]
	np := rapid.IntRange(1, 4).Draw(t, "nPools")
	cursor := map[int]uint32{}
	var topo Topo
	// in a quarter of the topologies all pools share one or two pod subnets (disjoint ranges, different node subnets)
	sharedMode := np > 1 && rapid.IntRange(0, 3).Draw(t, "sharedSubnetMode") == 0
	for i := 0; i < np; i++ {
		ps := rapid.IntRange(0, len(podSubnets)-1).Draw(t, "podSubnet")
		if rapid.IntRange(0, 2).Draw(t, "freshSubnet") > 0 {
			ps = i % len(podSubnets)
		}
		if sharedMode {
			ps = rapid.IntRange(0, 1).Draw(t, "sharedPodSubnet")
		}
		sub := podSubnets[ps]
		p := PoolT{Subnet: sub.cidr, Gateway: sub.gw, Vlan: sub.vlan}
		nns := rapid.IntRange(1, 2).Draw(t, "nPoolNodeSubnets")
		seen := map[int]bool{}
		for j := 0; j < nns; j++ {
			u := uni[rapid.IntRange(0, nu-1).Draw(t, "ns")]
			if !seen[u] {
				seen[u] = true
				p.NodeSubnets = append(p.NodeSubnets, nodeSubnetUniverse[u])
			}
		}
		p.Routable = len(p.NodeSubnets) == 1 && rapid.Bool().Draw(t, "routableField")
		nr := rapid.IntRange(1, 3).Draw(t, "nRanges")
		total := 0
		maxTotal := maxIPsPerPool
		if sub.cidr == "10.180.154.0/28" {
			maxTotal = 3 // tiny subnet shared by several pools
		}
		for j := 0; j < nr && total < maxTotal; j++ {
			cur := cursor[ps]
			if cur == 0 {
				cur = sub.base
			}
			ln := rapid.IntRange(1, 4).Draw(t, "rangeLen")
			if total+ln > maxTotal {
				ln = maxTotal - total
			}
			a := cur
			b := cur + uint32(ln) - 1
			if b > sub.limit {
				break
			}
			p.Ranges = append(p.Ranges, [2]uint32{a, b})
			total += ln
			cursor[ps] = b + 2 + uint32(rapid.IntRange(0, 2).Draw(t, "gap"))
		}
		if len(p.Ranges) == 0 {
			// the small shared subnet is full: use the large one
			big := podSubnets[2]
			cur := cursor[2]
			if cur == 0 {
				cur = big.base
			}
			p.Subnet, p.Gateway, p.Vlan = big.cidr, big.gw, big.vlan
			p.Ranges = [][2]uint32{{cur, cur + 1}}
			cursor[2] = cur + 4
		}
		topo.Pools = append(topo.Pools, p)
	}
	// interleave: when two pools share a pod subnet, the last range of the first may move behind the first range of the second, so
	// that a range of one pool lies in a gap between the ranges of the other
	if sharedMode && rapid.Bool().Draw(t, "interleave") {
	swap:
		for a := range topo.Pools {
			for b := a + 1; b < len(topo.Pools); b++ {
				A, B := &topo.Pools[a], &topo.Pools[b]
				if A.Subnet == B.Subnet && len(A.Ranges) >= 2 && len(B.Ranges) >= 1 && A.Ranges[len(A.Ranges)-1][1] < B.Ranges[0][0] {
					A.Ranges[len(A.Ranges)-1], B.Ranges[0] = B.Ranges[0], A.Ranges[len(A.Ranges)-1]
					// keep B sorted
					for i := 0; i+1 < len(B.Ranges); i++ {
						if B.Ranges[i][0] > B.Ranges[i+1][0] {
							B.Ranges[i], B.Ranges[i+1] = B.Ranges[i+1], B.Ranges[i]
						}
					}
					break swap
				}
			}
		}
	}
	nn := rapid.IntRange(1, 5).Draw(t, "nNodes")
	for i := 0; i < nn; i++ {
		u := uni[rapid.IntRange(0, nu-1).Draw(t, "nodeSubnet")]
		ip := nodeSubnetHost[u]
		if u != 2 && u != 3 { // /32 subnets have exactly one address
			ip += uint32(i) * 4
		}
		topo.Nodes = append(topo.Nodes, NodeT{Name: fmt.Sprintf("n%d", i), IP: u32ip(ip), Dual: rapid.IntRange(0, 4).Draw(t, "dualStack") == 0})
	}
	switch rapid.IntRange(0, 7).Draw(t, "oddNode") {
	case 0:
		topo.Nodes = append(topo.Nodes, NodeT{Name: fmt.Sprintf("n%d", len(topo.Nodes)), IP: "10.99.0.5"})
	case 1:
		topo.Nodes = append(topo.Nodes, NodeT{Name: fmt.Sprintf("n%d", len(topo.Nodes)), IP: ""})
	}
	return topo
}

// HistoryParams biases the history generator towards the orderings a property cares about.
type HistoryParams struct {
	MinOps, MaxOps int
	Weights        map[string]int
	Episodes       bool // allow concurrent episodes
	Cloud          int  // 0 never, 1 sometimes, 2 always
	Lag            bool
	Reloads        bool
	Ranges         bool
	MaxIPsPerPool  int
	EndQuiesce     bool
	Kinds          []string
	Policies       []string
	CloudFail      bool
	Phrases        int  // percentage of generation steps that emit a multi-op phrase (default 35)
	CrFail         bool // some replica lookups of custom-resource apps fail (internal error, not NotFound)
	AltRanges      bool // workloads may change their pods' request_ip_range between incarnations (pod template edited)
	FaultPct       int  // percentage of histories in which one API-server call of galaxy-ipam fails (error, no effect)
}

var DefaultWeights = map[string]int{
	"create": 14, "recreate": 4, "sched": 16, "filter": 4, "bind": 5, "phase": 7, "delete": 10, "deliver": 12, "drop": 1,
	"unbind": 10, "resync": 4, "syncips": 2, "scale": 3, "delwl": 1, "mkwl": 1, "apirelease": 3, "poolapi": 2,
	"poolobj": 1, "reload": 0, "reserve": 1, "unreserve": 1, "fipevent": 1, "restart": 1, "synclister": 0,
	"quiesce": 2, "episode": 0, "terminate": 2,
}

func genWLs(t *rapid.T, hp *HistoryParams, topo Topo) ([]WL, []PoolObj) {
	kinds := hp.Kinds
	if len(kinds) == 0 {
		kinds = []string{"sts", "dp", "dp", "cr", "nscr", "bare", "dppool", "stspool"}
	}
	policies := hp.Policies
	if len(policies) == 0 {
		policies = []string{"", "immutable", "never"}
	}
	n := rapid.IntRange(1, 3).Draw(t, "nWL")
	var wls []WL
	var pools []PoolObj
	for i := 0; i < n; i++ {
		k := rapid.SampledFrom(kinds).Draw(t, "wlKind")
		wl := WL{Kind: k, Policy: rapid.SampledFrom(policies).Draw(t, "policy"), Replicas: rapid.IntRange(0, 3).Draw(t, "replicas")}
		if rapid.IntRange(0, 3).Draw(t, "repl1plus") > 0 && wl.Replicas == 0 {
			wl.Replicas = 2
		}
		switch k {
		case "stspool", "crpool":
			// a statefulset / custom-resource pod may carry the ip-pool annotation too: its IP is keyed pool__<pool>_<pod key> and is
			// never released; no Pool object (sizes only concern deployments)
			wl.Kind = map[string]string{"stspool": "sts", "crpool": "cr"}[k]
			wl.Pool = fmt.Sprintf("q%d", rapid.IntRange(0, 1).Draw(t, "stsPoolName"))
		case "dppool":
			wl.Kind = "dp"
			wl.Pool = fmt.Sprintf("p%d", rapid.IntRange(0, 1).Draw(t, "poolName"))
			found := false
			for _, p := range pools {
				if p.Name == wl.Pool {
					found = true
				}
			}
			if !found {
				size := rapid.IntRange(-1, 4).Draw(t, "poolSize")
				if size >= 0 {
					pools = append(pools, PoolObj{Name: wl.Pool, Size: size})
				}
			}
		}
		wl.Name = fmt.Sprintf("%s%d", map[string]string{"sts": "s", "dp": "d", "cr": "c", "nscr": "x", "bare": "b"}[wl.Kind], i)
		wl.NoObject = wl.Kind != "bare" && rapid.IntRange(0, 9).Draw(t, "noObject") == 0
		if wl.Kind == "sts" {
			// only statefulsets: galaxy-ipam reads spec.replicas of a statefulset as "1 when unset"; it dereferences a deployment's
			// field unconditionally, which the API server's defaulting makes safe, so an unset deployment field is outside the domain
			wl.Unset = rapid.IntRange(0, 3).Draw(t, "unsetReplicas") == 0
		}
		if (wl.Kind == "sts" || wl.Kind == "cr" || wl.Kind == "nscr") && rapid.IntRange(0, 3).Draw(t, "wide") == 0 {
			wl.Wide = true
			wl.Replicas = rapid.SampledFrom([]int{1, 2, 11, 12, 12}).Draw(t, "wideReplicas")
		}
		if hp.Ranges && rapid.IntRange(0, 3).Draw(t, "withRanges") == 0 {
			wl.Ranges = genRanges(t, topo, rapid.IntRange(1, 3).Draw(t, "k"))
		}
		if hp.AltRanges && rapid.IntRange(0, 2).Draw(t, "withAltRanges") == 0 {
			wl.AltRanges = genRanges(t, topo, rapid.IntRange(1, 2).Draw(t, "kAlt"))
		}
		wls = append(wls, wl)
	}
	return wls, pools
}

// genRanges draws k pairwise-disjoint range lists over (mostly) configured addresses.
func genRanges(t *rapid.T, topo Topo, k int) [][]string {
	return genRangesFrom(t, topo.Pools, k)
}

// genRangesRoutable draws the lists from pools that share one node subnet, so that one node can satisfy them all.
func genRangesRoutable(t *rapid.T, topo Topo, k int) [][]string {
	ns := topo.Pools[rapid.IntRange(0, len(topo.Pools)-1).Draw(t, "nsPool")].NodeSubnets[0]
	var pools []PoolT
	for _, p := range topo.Pools {
		for _, s := range p.NodeSubnets {
			if s == ns {
				pools = append(pools, p)
				break
			}
		}
	}
	return genRangesFrom(t, pools, k)
}

func genRangesFrom(t *rapid.T, pools []PoolT, k int) [][]string {
	var spans [][2]uint32
	for _, p := range pools {
		spans = append(spans, p.Ranges...)
	}
	var out [][]string
	used := map[uint32]bool{}
	for i := 0; i < k; i++ {
		nr := rapid.IntRange(1, 2).Draw(t, "rangesInList")
		var list []string
		for j := 0; j < nr; j++ {
			sp := spans[rapid.IntRange(0, len(spans)-1).Draw(t, "span")]
			a := sp[0] + uint32(rapid.IntRange(-1, int(sp[1]-sp[0])).Draw(t, "ra"))
			b := a + uint32(rapid.IntRange(0, 3).Draw(t, "rlen"))
			// keep lists pairwise disjoint (precondition of the feature)
			ok := true
			for x := a; x <= b; x++ {
				if used[x] {
					ok = false
				}
			}
			if !ok {
				continue
			}
			for x := a; x <= b; x++ {
				used[x] = true
			}
			if a == b {
				list = append(list, u32ip(a))
			} else {
				list = append(list, u32ip(a)+"~"+u32ip(b))
			}
		}
		if len(list) > 0 {
			out = append(out, list)
		}
	}
	return out
}

// genOp draws one operation. flat: draw the kind with every entry of the weighted list equally likely; otherwise with rapid's
// own (small-index heavy) distribution, which makes the first kinds of the list - pod creation and re-creation - dominate.
func genOp(t *rapid.T, kinds []string, hp *HistoryParams, depth int, flat bool) Op {
	var k string
	if flat {
		k = kinds[uniformInt(t, len(kinds), "opFlat")]
	} else {
		k = rapid.SampledFrom(kinds).Draw(t, "op")
	}
	op := Op{K: k}
	if k == "restart" && hp.Lag && rapid.IntRange(0, 2).Draw(t, "staleRestart") == 0 {
		k, op.K = "restartstale", "restartstale"
	}
	switch k {
	case "restartstale":
		op.A = rapid.IntRange(0, 7).Draw(t, "staleBack")
	case "resync", "syncips", "deliver", "drop", "restart", "quiesce", "fipevent":
	case "episode":
		n := rapid.IntRange(2, 3).Draw(t, "nSub")
		sub := []string{"sched", "sched", "filter", "bind", "unbind", "resync", "apirelease", "deliver", "poolapi", "syncips", "newsched"}
		if hp.Reloads {
			sub = append(sub, "reload", "reload")
		}
		if hp.Lag {
			sub = append(sub, "synclister")
		}
		for i := 0; i < n; i++ {
			op.Sub = append(op.Sub, genOp(t, sub, hp, depth+1, flat))
		}
		op.Sched = GenSchedule(t)
	default:
		op.A = rapid.IntRange(0, 7).Draw(t, "a")
		op.B = rapid.IntRange(0, 63).Draw(t, "b")
		op.C = rapid.IntRange(0, 7).Draw(t, "c")
	}
	return op
}

// genConvoy: the first task takes a few steps (and may then hold a lock), the second takes a few, the third and the fourth take
// a few (until they finish or block), the second continues until it blocks, the first finishes: the waiters queue on the lock in
// a chosen order.
func genConvoy(t *rapid.T) []int {
	var out []int
	for i, k := 0, rapid.IntRange(1, 6).Draw(t, "convoyA"); i < k; i++ {
		out = append(out, 0)
	}
	for i, k := 0, rapid.IntRange(1, 8).Draw(t, "convoyB"); i < k; i++ {
		out = append(out, 1)
	}
	for i, k := 0, rapid.IntRange(1, 6).Draw(t, "convoyC"); i < k; i++ {
		out = append(out, 2) // third task; once it is gone index 2 is the fourth
	}
	for i := 0; i < 40; i++ {
		out = append(out, 1)
	}
	return out
}

// GenSchedule draws scheduler decisions: either uniformly mixed or bursty (one task runs several steps in a row),
// because many races need "A starts, B runs to completion, A continues".
func GenSchedule(t *rapid.T) []int {
	shape := rapid.IntRange(0, 4).Draw(t, "schedShape")
	if shape == 4 {
		return genConvoy(t)
	}
	if shape == 3 {
		// nested: the first task takes a few steps, the others then run to completion one after the other, the first continues
		var out []int
		first := rapid.IntRange(0, 2).Draw(t, "nestFirst")
		k := rapid.IntRange(1, 10).Draw(t, "nestPrefix")
		for i := 0; i < k; i++ {
			out = append(out, first)
		}
		other := 1
		if first != 0 {
			other = 0
		}
		for i := 0; i < 70; i++ {
			out = append(out, other)
		}
		return out
	}
	if shape >= 1 {
		var out []int
		n := rapid.IntRange(1, 6).Draw(t, "bursts")
		for i := 0; i < n; i++ {
			v := rapid.IntRange(0, 2).Draw(t, "burstTask")
			l := rapid.IntRange(1, 25).Draw(t, "burstLen")
			for j := 0; j < l; j++ {
				out = append(out, v)
			}
		}
		return out
	}
	return rapid.SliceOfN(rapid.IntRange(0, 2), 0, 40).Draw(t, "sched")
}

// GenHistory draws a complete case.
func GenHistory(t *rapid.T, hp *HistoryParams) Case {
	maxIPs := hp.MaxIPsPerPool
	if maxIPs == 0 {
		maxIPs = 4
	}
	c := Case{Topo: GenTopo(t, maxIPs)}
	c.WLs, c.PoolObjs = genWLs(t, hp, c.Topo)
	switch hp.Cloud {
	case 1:
		c.Cloud = rapid.Bool().Draw(t, "cloud")
	case 2:
		c.Cloud = true
	}
	if hp.Lag {
		c.Lag = rapid.IntRange(0, 2).Draw(t, "lag") == 0
	}
	w := map[string]int{}
	for k, v := range DefaultWeights {
		w[k] = v
	}
	for k, v := range hp.Weights {
		w[k] = v
	}
	if c.Lag {
		w["synclister"] += 8
	}
	if hp.Episodes {
		w["episode"] += 14
	}
	if hp.Reloads {
		w["reload"] += 5
		nc := rapid.IntRange(1, 3).Draw(t, "nConfigs")
		c.Configs = append(c.Configs, c.Topo.Pools)
		for i := 0; i < nc; i++ {
			c.Configs = append(c.Configs, mutateConfig(t, c.Topo.Pools))
		}
	}
	var kinds []string
	for _, k := range []string{"recreate", "create", "sched", "filter", "bind", "phase", "delete", "deliver", "drop", "unbind", "resync",
		"syncips", "scale", "delwl", "mkwl", "apirelease", "poolapi", "poolobj", "reload", "reserve", "unreserve", "fipevent",
		"restart", "synclister", "quiesce", "episode", "terminate"} {
		for i := 0; i < w[k]; i++ {
			kinds = append(kinds, k)
		}
	}
	n := rapid.IntRange(hp.MinOps, hp.MaxOps).Draw(t, "nOps")
	// a history starts by creating and scheduling some pods
	warm := rapid.IntRange(1, 4).Draw(t, "warmup")
	for i := 0; i < warm; i++ {
		c.Ops = append(c.Ops, Op{K: "create", A: rapid.IntRange(0, 7).Draw(t, "wa"), B: rapid.IntRange(0, 5).Draw(t, "wb")},
			Op{K: "sched", A: rapid.IntRange(0, 7).Draw(t, "sa"), B: 63, C: rapid.IntRange(0, 7).Draw(t, "sc")})
		if rapid.Bool().Draw(t, "running") {
			c.Ops = append(c.Ops, Op{K: "phase", A: rapid.IntRange(0, 7).Draw(t, "ra"), B: 0})
		}
	}
	n += len(c.Ops)
	ab := func(k string) Op {
		return Op{K: k, A: rapid.IntRange(0, 7).Draw(t, "pa"), B: rapid.IntRange(0, 63).Draw(t, "pb"), C: rapid.IntRange(0, 7).Draw(t, "pc")}
	}
	phrases := hp.Phrases
	if phrases == 0 {
		phrases = 35
	}
	// half of the histories draw operation kinds and phrase kinds flat (the weights mean what they say: reservations, reloads,
	// restarts and the later phrases appear as often as listed), half with rapid's small-value bias (creation-heavy histories)
	flat := rapid.Bool().Draw(t, "flatKinds")
	for len(c.Ops) < n {
		if rapid.IntRange(0, 99).Draw(t, "phrase") >= phrases {
			c.Ops = append(c.Ops, genOp(t, kinds, hp, 0, flat))
			continue
		}
		maxKind := 8
		if hp.Episodes {
			maxKind = 19
		}
		sched := func() []int { return GenSchedule(t) }
		var pk int
		if flat && hp.Episodes {
			// the phrases with concurrent episodes (9 and up: races of resync / release / unbind / sync against scheduling) twice as
			// often as the sequential ones
			pk = uniformInt(t, 9+2*(maxKind-8), "phraseKindFlat")
			if pk > 8 {
				pk = 9 + (pk-9)/2
			}
		} else if flat {
			pk = uniformInt(t, maxKind+1, "phraseKindFlat")
		} else {
			pk = rapid.IntRange(0, maxKind).Draw(t, "phraseKind")
		}
		if !hp.Episodes && pk == 8 {
			pk = 16
		}
		switch pk {
		case 19: // a pod is replaced and its successor bound; then the daemon restarts (leader change) with a pod cache served from a
			// lagging watch cache - it shows the OLD incarnation again while the store says the new one owns the IP - and resync and an
			// API release decide on that basis
			if !hp.Lag {
				c.Ops = append(c.Ops, ab("recreate"), ab("sched"))
				break
			}
			victim := rapid.IntRange(0, 7).Draw(t, "victim19")
			c.Ops = append(c.Ops, Op{K: "phase", A: victim, B: 0}, Op{K: "recreate", A: victim}, Op{K: "synclister", A: 2}, Op{K: "deliver"}, Op{K: "deliver"},
				Op{K: "deliver"}, ab("unbind"), ab("sched"), Op{K: "synclister", A: 2},
				Op{K: "restartstale", A: rapid.IntRange(2, 4).Draw(t, "back19")}, Op{K: "resync"}, ab("apireleasable"), Op{K: "resync"})
		case 18: // a pod is retired and its reservation handled; an administrator's release request is under way (it has checked that
			// no such pod runs) while the controller creates the next incarnation and the scheduler binds it
			var s18 []int
			for i, k := 0, 1+uniformInt(t, 16, "releasePrefix"); i < k; i++ {
				s18 = append(s18, 0)
			}
			for i := 0; i < 80; i++ {
				s18 = append(s18, 1)
			}
			ns := ab("newsched")
			ns.B |= 1 // the controller re-creates a name that existed before
			c.Ops = append(c.Ops, ab("delete"), Op{K: "deliver"}, Op{K: "deliver"}, ab("unbind"),
				Op{K: "episode", Sub: []Op{ab("apireleasable"), ns}, Sched: s18}, ab("create"), ab("sched"))
		case 17: // the periodic pod-IP sync has read an old incarnation from the cache; its delete event, its unbind, the cache update and
			// the replacement's scheduling all run before the sync goes on
			var s17 []int
			for i, k := 0, rapid.IntRange(1, 5).Draw(t, "syncPrefix"); i < k; i++ {
				s17 = append(s17, 0)
			}
			for i := 0; i < 80; i++ {
				s17 = append(s17, 1)
			}
			// (the cache still holds the old incarnation when the episode starts: nothing is delivered in between)
			victim := rapid.IntRange(0, 7).Draw(t, "victim")
			c.Ops = append(c.Ops, Op{K: "phase", A: victim, B: 0}, Op{K: "deliver"}, Op{K: "deliver"}, Op{K: "recreate", A: victim},
				Op{K: "episode", Sub: []Op{{K: "syncips"}, {K: "deliverlate"}, ab("unbindlate"), {K: "synclister", A: 2}, ab("sched")}, Sched: s17},
				Op{K: "resync"})
		case 16: // a pod is retired, its events handled, an administrator releases what it left behind, then the pod comes back
			c.Ops = append(c.Ops, ab("delete"), Op{K: "deliver"}, Op{K: "deliver"}, ab("unbind"), ab("apirelease"), ab("create"), ab("sched"))
		case 14, 15: // the old incarnation's unbind holds the pod lock while the replacement's bind and an API release queue behind it;
			// the pod cache learns about the replacement in between (one event delivered: the cache has seen the deletion only)
			c.Ops = append(c.Ops, ab("recreate"), Op{K: "deliver"}, ab("filter"),
				Op{K: "episode", Sub: []Op{ab("unbind"), ab("apirelease"), {K: "synclister", A: 0}, ab("bind")}, Sched: genConvoy(t)})
		case 13: // old incarnation's events race with the replacement's scheduling
			c.Ops = append(c.Ops, ab("recreate"), Op{K: "deliver"}, Op{K: "deliver"},
				Op{K: "episode", Sub: []Op{ab("unbind"), ab("sched")}, Sched: sched()})
		case 8: // two pods scheduled at the same time
			c.Ops = append(c.Ops, ab("create"), ab("create"), Op{K: "episode", Sub: []Op{ab("sched"), ab("sched")}, Sched: sched()})
		case 9: // resync / API release against scheduling
			c.Ops = append(c.Ops, ab("recreate"), Op{K: "episode", Sub: []Op{rapid.SampledFrom([]Op{{K: "resync"}, ab("apirelease"),
				{K: "deliver"}}).Draw(t, "vs"), ab("sched")}, Sched: sched()})
		case 11, 12: // a resync pass overlaps the old incarnation's unbind and the replacement's scheduling
			c.Ops = append(c.Ops, ab("recreate"), Op{K: "deliver"}, Op{K: "deliver"},
				Op{K: "episode", Sub: []Op{{K: "resync"}, ab("unbind"), ab("sched")}, Sched: sched()})
		case 10: // filter now, bind later while something else runs
			c.Ops = append(c.Ops, ab("create"), ab("filter"), Op{K: "episode", Sub: []Op{ab("bind"), rapid.SampledFrom([]Op{{K: "resync"},
				ab("unbind"), ab("sched"), {K: "syncips"}}).Draw(t, "vs2")}, Sched: sched()})
		case 7: // several pods of one app bound, one retired (its IP may be reserved), then scale down and retire another
			a := rapid.IntRange(0, 7).Draw(t, "appPick")
			for i := 0; i < 3; i++ {
				c.Ops = append(c.Ops, Op{K: "create", A: a, B: rapid.IntRange(0, 5).Draw(t, "slot")}, ab("sched"))
			}
			c.Ops = append(c.Ops, ab("delete"), Op{K: "deliver"}, Op{K: "deliver"}, ab("unbind"), Op{K: "scale", A: a, B: rapid.IntRange(1, 2).Draw(t, "r")},
				ab("delete"), Op{K: "deliver"}, Op{K: "deliver"}, ab("unbind"), ab("unbind"))
		case 0: // a pod's life
			c.Ops = append(c.Ops, ab("create"), ab("sched"), Op{K: "phase", A: rapid.IntRange(0, 7).Draw(t, "pa"), B: 0})
		case 1: // retire a pod and handle its events
			if rapid.IntRange(0, 2).Draw(t, "deletedWhileBinding") == 0 {
				// ... a pod that is deleted between its filter and its bind (the bind request is already on its way)
				victim := rapid.IntRange(0, 7).Draw(t, "victim1")
				c.Ops = append(c.Ops, ab("create"), Op{K: "synclister", A: 2}, Op{K: "filter", A: victim, B: 63}, Op{K: "delete", A: victim}, ab("bindgone"))
			}
			c.Ops = append(c.Ops, ab("delete"), Op{K: "deliver"}, Op{K: "deliver"}, ab("unbind"), ab("unbind"))
		case 2: // a pod finishes
			c.Ops = append(c.Ops, Op{K: "phase", A: rapid.IntRange(0, 7).Draw(t, "pa"), B: rapid.IntRange(1, 2).Draw(t, "fin")},
				Op{K: "deliver"}, Op{K: "deliver"}, ab("unbind"))
		case 3: // replacement with the same name, scheduled before/after the old pod's events are handled
			c.Ops = append(c.Ops, ab("recreate"))
			if rapid.Bool().Draw(t, "eventsFirst") {
				c.Ops = append(c.Ops, Op{K: "deliver"}, Op{K: "deliver"}, ab("unbind"), ab("sched"))
			} else {
				c.Ops = append(c.Ops, ab("sched"), Op{K: "deliver"}, Op{K: "deliver"}, ab("unbind"), ab("sched"))
			}
		case 4: // scale and retire
			c.Ops = append(c.Ops, ab("scale"), ab("delete"), Op{K: "deliver"}, Op{K: "deliver"}, ab("unbind"), Op{K: "resync"})
		case 5: // delete the app, then its pods
			c.Ops = append(c.Ops, ab("delwl"), ab("delete"), ab("delete"), Op{K: "deliver"}, Op{K: "deliver"}, Op{K: "deliver"},
				ab("unbind"), ab("unbind"), Op{K: "resync"})
		case 6: // pods of a deployment roll
			c.Ops = append(c.Ops, ab("create"), ab("sched"), ab("delete"), Op{K: "deliver"}, Op{K: "deliver"}, ab("unbind"), ab("create"))
			if rapid.Bool().Draw(t, "resyncBetweenFilterAndBind") {
				// the periodic resync runs between the replacement's filter and its bind, possibly before the pod cache has the pod
				c.Ops = append(c.Ops, ab("filter"), Op{K: "resync"}, Op{K: "synclister", A: 2}, ab("bind"))
			} else {
				c.Ops = append(c.Ops, ab("sched"))
			}
		}
	}
	if hp.EndQuiesce {
		c.Ops = append(c.Ops, Op{K: "quiesce"})
	}
	if hp.FaultPct > 0 && rapid.IntRange(0, 99).Draw(t, "faulty") < hp.FaultPct && len(c.Ops) > 0 {
		c.FaultAt = &FaultAt{Op: rapid.IntRange(0, len(c.Ops)-1).Draw(t, "faultOp"), Fault: Fault{
			K: rapid.IntRange(1, 8).Draw(t, "faultK"), Mode: "error",
			Err: rapid.SampledFrom([]string{"internal", "conflict", "timeout", "exists"}).Draw(t, "faultErr")}} // NotFound for an object that exists would be a lie of the API server, not a failure
	}
	if hp.CrFail {
		for i, n := 0, rapid.IntRange(0, 2).Draw(t, "nCrFail"); i < n; i++ {
			c.CrFail = append(c.CrFail, rapid.IntRange(1, 10).Draw(t, "crFail"))
		}
	}
	if c.Cloud && hp.CloudFail {
		nf := rapid.IntRange(0, 2).Draw(t, "nCloudFail")
		for i := 0; i < nf; i++ {
			c.CloudFail = append(c.CloudFail, rapid.IntRange(0, 12).Draw(t, "cloudFail"))
		}
	}
	return c
}

// mutateConfig derives another valid configuration: ranges shrink/grow/move between pools, pools disappear.
func mutateConfig(t *rapid.T, base []PoolT) []PoolT {
	var out []PoolT
	for _, p := range base {
		q := p
		q.Ranges = nil
		switch rapid.IntRange(0, 5).Draw(t, "poolMut") {
		case 0: // pool disappears
			continue
		case 1: // shrink: drop the first range or shorten it
			for j, r := range p.Ranges {
				if j == 0 {
					if r[1] > r[0] {
						q.Ranges = append(q.Ranges, [2]uint32{r[0] + 1, r[1]})
					}
					continue
				}
				q.Ranges = append(q.Ranges, r)
			}
		case 2: // shorten the last range at its end
			for j, r := range p.Ranges {
				if j == len(p.Ranges)-1 && r[1] > r[0] {
					q.Ranges = append(q.Ranges, [2]uint32{r[0], r[1] - 1})
					continue
				}
				q.Ranges = append(q.Ranges, r)
			}
		case 3: // other node subnets
			q.Ranges = append(q.Ranges, p.Ranges...)
			q.NodeSubnets = []string{nodeSubnetUniverse[rapid.IntRange(0, len(nodeSubnetUniverse)-1).Draw(t, "newNs")]}
			q.Routable = false
		default:
			q.Ranges = append(q.Ranges, p.Ranges...)
		}
		if len(q.Ranges) > 0 {
			out = append(out, q)
		}
	}
	if len(out) == 0 {
		out = append(out, base[0])
	}
	if rapid.IntRange(0, 3).Draw(t, "narrowNodeSubnets") == 0 {
		// the administrator re-states the node subnets with a longer prefix (every node of the topology stays inside): the subnet
		// of a node is a different CIDR than under the previous configuration
		narrow := map[string]string{"10.49.27.0/24": "10.49.27.0/25", "10.49.28.0/26": "10.49.28.0/27", "10.173.13.0/24": "10.173.13.0/25",
			"10.48.0.0/16": "10.48.0.0/17"}
		for i := range out {
			ns := append([]string{}, out[i].NodeSubnets...)
			for j, c := range ns {
				if n, ok := narrow[c]; ok {
					ns[j] = n
				}
			}
			out[i].NodeSubnets = ns
		}
	}
	return out
}

// addReservationStories inserts 0-2 stories at random places of the history: an administrator reserves an IP; its watch event
// arrives before / after / never relative to the next scheduling (or across a reload); later the reservation is withdrawn, again
// with the event early or late, and pods are scheduled on.
func addReservationStories(t *rapid.T, c *Case, reloads bool) {
	for k, n := 0, rapid.IntRange(0, 2).Draw(t, "nReservationStories"); k < n && len(c.Ops) > 0; k++ {
		arg := func(k string) Op {
			return Op{K: k, A: rapid.IntRange(0, 7).Draw(t, "ra9"), B: rapid.IntRange(0, 63).Draw(t, "rb9"), C: rapid.IntRange(0, 7).Draw(t, "rc9")}
		}
		reload := func() Op {
			if reloads {
				return arg("reload")
			}
			return arg("resync")
		}
		story := []Op{arg("reserve")}
		switch rapid.IntRange(0, 3).Draw(t, "addEvent") {
		case 0:
			story = append(story, Op{K: "fipevent"}, arg("create"), arg("sched"))
		case 1:
			story = append(story, arg("create"), arg("sched"), Op{K: "fipevent"})
		case 2:
			story = append(story, arg("create"), arg("sched"), arg("create"), arg("sched"))
		default:
			story = append(story, reload(), Op{K: "fipevent"}, arg("create"), arg("sched"))
		}
		switch rapid.IntRange(0, 3).Draw(t, "withdraw") {
		case 0:
			story = append(story, arg("unreserve"), Op{K: "fipevent"}, Op{K: "fipevent"}, arg("create"), arg("sched"))
		case 1:
			story = append(story, arg("unreserve"), arg("create"), arg("sched"), Op{K: "fipevent"}, Op{K: "fipevent"}, arg("sched"))
		case 2:
			story = append(story, arg("unreserve"), reload(), arg("create"), arg("sched"))
		}
		at := rapid.IntRange(0, len(c.Ops)).Draw(t, "storyAt")
		if c.FaultAt != nil && c.FaultAt.Op >= at {
			c.FaultAt.Op += len(story)
		}
		c.Ops = append(c.Ops[:at:at], append(story, c.Ops[at:]...)...)
	}
}

// uniformInt draws an integer in [0,n) WITHOUT rapid's bias towards small values (rapid's IntRange / SampledFrom put about 40% of
// the mass on the first tenth of the range, which turns a weighted list of operation kinds into "mostly the first few kinds").
// It is built from fair coin flips, so it still shrinks (towards 0) and replays like any other draw.
func uniformInt(t *rapid.T, n int, label string) int {
	if n <= 1 {
		return 0
	}
	bits := 0
	for 1<<uint(bits) < n {
		bits++
	}
	bits += 3 // extra bits keep the modulo bias below 1/8 of a bucket
	v := 0
	for _, b := range rapid.SliceOfN(rapid.Bool(), bits, bits).Draw(t, label) {
		v <<= 1
		if b {
			v |= 1
		}
	}
	return v % n
}
