package ipamsim

import (
	"os"
	"testing"

	"pgregory.net/rapid"
	"verifharness/vcore"
)

func TestMain(m *testing.M) {
	vcore.QuietKlog()
	os.Exit(m.Run())
}

func classify(x *Exec, r *vcore.Rec) {
	for k := range x.Stats {
		r.Class(k)
	}
	names := map[string]int{}
	bound := 0
	for _, p := range x.W.AllPods {
		names[p.Name]++
		if p.Bound {
			bound++
		}
	}
	for _, n := range names {
		if n >= 2 {
			r.Class("same_name_recreated")
		}
	}
	r.ClassIf(bound >= 2, "two_pods_bound")
	r.ClassIf(x.C.Lag, "lister_lag")
	r.ClassIf(x.C.Cloud, "cloud_provider")
}

func runHistory(c Case, r *vcore.Rec, obs ...Observer) (*Exec, *vcore.Failure) {
	x, err := NewExec(&c, r, obs...)
	if err != nil {
		return nil, vcore.Failf("harness:init", "world construction failed: %v", err)
	}
	f := x.Run()
	classify(x, r)
	return x, f
}

var c01Params = &HistoryParams{MinOps: 15, MaxOps: 60, Episodes: true, Cloud: 1, Lag: true, Ranges: true}

func checkC01(c Case, r *vcore.Rec) *vcore.Failure {
	o := &ObsC01{}
	x, f := runHistory(c, r, o)
	if x == nil {
		return f
	}
	bound := 0
	for _, p := range x.W.AllPods {
		if p.Bound {
			bound++
		}
	}
	if bound >= 2 && (o.Realloc || x.Stats["episode_overlapped"] > 0) {
		r.NonTrivial()
	}
	r.ClassIf(o.Realloc, "ip_reallocated")
	return f
}

func TestC01(t *testing.T) {
	vcore.Run(t, "C01", rapid.Custom(func(t *rapid.T) Case { return GenHistory(t, c01Params) }), checkC01)
}

var c04Params = &HistoryParams{MinOps: 15, MaxOps: 50, Episodes: true, Cloud: 1, Lag: true, Reloads: true,
	Weights: map[string]int{"create": 18, "delete": 14, "phase": 10, "drop": 0, "restart": 1, "apirelease": 5, "resync": 6,
		"reserve": 0, "unreserve": 0, "fipevent": 0, "poolapi": 1},
	Kinds: []string{"sts", "sts", "dp", "cr", "bare", "dppool"}}

func checkC04(c Case, r *vcore.Rec) *vcore.Failure {
	o := &ObsC04{}
	x, f := runHistory(c, r, o)
	if x == nil {
		return f
	}
	if o.Dangerous {
		r.NonTrivial()
		r.Class("release_path_with_live_replacement")
	}
	return f
}

func TestC04(t *testing.T) {
	vcore.Run(t, "C04", rapid.Custom(func(t *rapid.T) Case { return GenHistory(t, c04Params) }), checkC04)
}
