package ipamsim

import (
	"fmt"
	"os"
	"strconv"
	"testing"
	"time"

	"pgregory.net/rapid"
	"verifharness/vcore"
)

func TestMain(m *testing.M) {
	vcore.QuietKlog()
	os.Exit(m.Run())
}

func classify(x *Exec, r *vcore.Rec) {
	for k := range x.Stats {
		r.Class(k)
	}
	names := map[string]int{}
	bound := 0
	for _, p := range x.W.AllPods {
		names[p.Name]++
		if p.Bound {
			bound++
		}
	}
	for _, n := range names {
		if n >= 2 {
			r.Class("same_name_recreated")
		}
	}
	r.ClassIf(bound >= 2, "two_pods_bound")
	r.ClassIf(x.C.Lag, "lister_lag")
	r.ClassIf(x.C.Cloud, "cloud_provider")
}

// enumRate > 0 (thorough tiers, env VERIF_ENUM_RATE): one in enumRate generated cases is cut after its last concurrent episode
// and ALL scheduler decision sequences of that episode are enumerated depth-first (bounded), instead of the one generated schedule.
var enumRate, enumBound = func() (int, int) {
	r, _ := strconv.Atoi(os.Getenv("VERIF_ENUM_RATE"))
	b, _ := strconv.Atoi(os.Getenv("VERIF_ENUM_BOUND"))
	if b == 0 {
		b = 1500
	}
	return r, b
}()

var enumCounter int

// enumerate runs the case once per decision sequence of its last episode (stateless depth-first search over the scheduler's
// choice points; the world is rebuilt from scratch for every schedule).
func enumerate(c Case, mk func() []Observer) *vcore.Failure {
	last := -1
	for i, op := range c.Ops {
		if op.K == "episode" {
			last = i
		}
	}
	if last < 0 {
		return nil
	}
	c.Ops = append([]Op{}, c.Ops[:last+1]...)
	var prefix []int
	schedules := 0
	exhaustive := false
	started := time.Now()
	for schedules < enumBound && time.Since(started) < 20*time.Second { // the wall budget only ends the enumeration early (not exhaustive)
		cc := c
		cc.Ops = append([]Op{}, c.Ops...)
		ep := cc.Ops[last]
		ep.Sched = append(append([]int{}, prefix...), make([]int, 200)...)
		cc.Ops[last] = ep
		rr := &vcore.Rec{}
		x, err := NewExec(&cc, rr, mk()...)
		if err != nil {
			return vcore.Failf("harness:init", "world construction failed: %v", err)
		}
		f := x.Run()
		schedules++
		if f != nil {
			f.Msg = fmt.Sprintf("[enumerated schedule #%d %v] %s", schedules, prefix, f.Msg)
			f.Trace = rr.Trace()
			return f
		}
		// next leaf: increment the last decision that still has an untried alternative
		taken := x.LastTaken
		i := len(taken) - 1
		for ; i >= 0; i-- {
			if taken[i][0]+1 < taken[i][1] {
				break
			}
		}
		if i < 0 {
			exhaustive = true
			break
		}
		prefix = prefix[:0]
		for j := 0; j < i; j++ {
			prefix = append(prefix, taken[j][0])
		}
		prefix = append(prefix, taken[i][0]+1)
	}
	vcore.Extra("enumerated_episodes", 1)
	vcore.Extra("enumerated_schedules", int64(schedules))
	if exhaustive {
		vcore.Extra("episodes_enumerated_exhaustively", 1)
	}
	return nil
}

func maybeEnumerate(c Case, r *vcore.Rec, mk func() []Observer) *vcore.Failure {
	if enumRate <= 0 {
		return nil
	}
	enumCounter++
	if enumCounter%enumRate != 0 {
		return nil
	}
	// only two-task episodes are enumerated (three-way episodes are sampled)
	for i := range c.Ops {
		if c.Ops[i].K == "episode" && len(c.Ops[i].Sub) > 2 {
			c.Ops[i].Sub = c.Ops[i].Sub[:2]
		}
	}
	r.Class("schedules_enumerated")
	return enumerate(c, mk)
}

func runHistory(c Case, r *vcore.Rec, obs ...Observer) (*Exec, *vcore.Failure) {
	x, err := NewExec(&c, r, obs...)
	if err != nil {
		return nil, vcore.Failf("harness:init", "world construction failed: %v", err)
	}
	f := x.Run()
	classify(x, r)
	return x, f
}

var c01Params = &HistoryParams{MinOps: 15, MaxOps: 60, Episodes: true, Cloud: 1, Lag: true, Ranges: true, FaultPct: 25, Reloads: true,
	Weights: map[string]int{"restart": 4, "reload": 4}}

func checkC01(c Case, r *vcore.Rec) *vcore.Failure {
	if f := maybeEnumerate(c, r, func() []Observer { return []Observer{&ObsC01{}} }); f != nil {
		return f
	}
	o := &ObsC01{}
	x, f := runHistory(c, r, o)
	if x == nil {
		return f
	}
	bound := 0
	for _, p := range x.W.AllPods {
		if p.Bound {
			bound++
		}
	}
	if bound >= 2 && (o.Realloc || x.Stats["episode_overlapped"] > 0) {
		r.NonTrivial()
	}
	r.ClassIf(o.Realloc, "ip_reallocated")
	r.ClassIf(x.W.faultHitEver, "api_call_failed")
	return f
}

func TestC01(t *testing.T) {
	vcore.Run(t, "C01", rapid.Custom(func(t *rapid.T) Case { return GenHistory(t, c01Params) }), checkC01)
}

var c04Params = &HistoryParams{MinOps: 15, MaxOps: 50, Episodes: true, Cloud: 1, Lag: true, Reloads: true, FaultPct: 25, Ranges: true, AltRanges: true,
	Weights: map[string]int{"create": 18, "delete": 14, "phase": 10, "drop": 0, "restart": 1, "apirelease": 5, "resync": 6,
		"reserve": 0, "unreserve": 0, "fipevent": 0, "poolapi": 1},
	Kinds: []string{"sts", "sts", "dp", "cr", "bare", "dppool"}}

func checkC04(c Case, r *vcore.Rec) *vcore.Failure {
	if f := maybeEnumerate(c, r, func() []Observer { return []Observer{&ObsC04{}} }); f != nil {
		return f
	}
	o := &ObsC04{}
	x, f := runHistory(c, r, o)
	if x == nil {
		return f
	}
	if o.Dangerous {
		r.NonTrivial()
		r.Class("release_path_with_live_replacement")
	}
	r.ClassIf(x.W.faultHitEver, "api_call_failed")
	return f
}

func TestC04(t *testing.T) {
	vcore.Run(t, "C04", rapid.Custom(func(t *rapid.T) Case { return GenHistory(t, c04Params) }), checkC04)
}

var c02Params = &HistoryParams{MinOps: 15, MaxOps: 50, Cloud: 0, Lag: true, Ranges: true, FaultPct: 25,
	Weights: map[string]int{"create": 18, "delete": 14, "sched": 20, "phase": 5, "deliver": 14, "unbind": 14, "drop": 0, "reserve": 0,
		"unreserve": 0, "fipevent": 0, "apirelease": 4, "restart": 6, "resync": 8, "poolapi": 1, "scale": 3},
	Kinds: []string{"sts", "dp", "dp", "cr", "nscr", "bare", "dppool", "stspool", "crpool"}, Policies: []string{"immutable", "never", "never", ""}}

func checkC02(c Case, r *vcore.Rec) *vcore.Failure {
	o := &ObsC02{}
	x, f := runHistory(c, r, o)
	if x == nil {
		return f
	}
	if o.Sticky > 0 {
		r.NonTrivial()
		r.Class("bound_with_reservation")
	}
	return f
}

func TestC02(t *testing.T) {
	vcore.Run(t, "C02", rapid.Custom(func(t *rapid.T) Case { return GenHistory(t, c02Params) }), checkC02)
}

var c03Params = &HistoryParams{MinOps: 15, MaxOps: 50, Cloud: 0, Lag: true, EndQuiesce: true, Ranges: true, CrFail: true,
	Weights: map[string]int{"create": 16, "delete": 14, "sched": 18, "phase": 8, "deliver": 10, "unbind": 10, "drop": 3, "reserve": 0,
		"unreserve": 0, "fipevent": 0, "apirelease": 0, "restart": 4, "poolapi": 0, "poolobj": 0, "scale": 6, "delwl": 3, "mkwl": 2,
		"quiesce": 4, "resync": 6}}

func checkC03(c Case, r *vcore.Rec) *vcore.Failure {
	o := &ObsC03{}
	x, f := runHistory(c, r, o)
	if x == nil {
		return f
	}
	r.ClassIf(o.Keeps > 0, "keep_decision")
	r.ClassIf(o.Releases > 0, "release_decision")
	r.ClassIf(o.ConcurrentExcess, "immutable_dp_siblings_unbound_concurrently")
	if o.Keeps > 0 && o.Releases > 0 && o.ScaleOrDelete {
		r.NonTrivial()
	}
	return f
}

func TestC03(t *testing.T) {
	vcore.Run(t, "C03", rapid.Custom(func(t *rapid.T) Case {
		c := GenHistory(t, c03Params)
		if rapid.IntRange(0, 5).Draw(t, "doubleDelete") == 0 {
			// a scale-down of an immutable deployment that coincides with a second pod going away: the deployment holds replicas+1
			// IPs and the delete events of two of its pods are handled at the same time (one unbind loop each)
			c.WLs = append([]WL{{Kind: "dp", Name: "dz", Policy: "immutable", Replicas: 3}}, c.WLs...)
			c.NoNameReuse = true
			var story []Op
			for i := 0; i < 3; i++ {
				story = append(story, Op{K: "create"}, Op{K: "sched", B: 63})
			}
			story = append(story, Op{K: "scale", B: 2}, Op{K: "delete"}, Op{K: "delete"})
			for i := 0; i < 14; i++ {
				story = append(story, Op{K: "deliver"})
			}
			var sch []int
			switch rapid.IntRange(0, 2).Draw(t, "ddShape") {
			case 0:
				for i := 0; i < 60; i++ {
					sch = append(sch, i%2)
				}
			case 1:
				for i, k := 0, rapid.IntRange(1, 8).Draw(t, "ddPrefix"); i < 60; i++ {
					if i < k {
						sch = append(sch, 0)
					} else {
						sch = append(sch, 1)
					}
				}
			default:
				sch = rapid.SliceOfN(rapid.IntRange(0, 1), 10, 60).Draw(t, "ddSched")
			}
			story = append(story, Op{K: "episode", Sub: []Op{{K: "unbind"}, {K: "unbind"}}, Sched: sch})
			c.Ops = append(story, c.Ops...)
			if c.FaultAt != nil {
				c.FaultAt.Op += len(story)
			}
		}
		return c
	}), checkC03)
}

var c10Params = &HistoryParams{MinOps: 15, MaxOps: 50, Cloud: 2, CloudFail: true, Lag: true, Episodes: true, Ranges: true, Reloads: true,
	Weights: map[string]int{"create": 18, "delete": 14, "sched": 20, "phase": 6, "deliver": 12, "unbind": 12, "drop": 1, "reserve": 0,
		"unreserve": 0, "fipevent": 0, "apirelease": 4, "restart": 1, "resync": 6, "reload": 3, "syncips": 4},
	Kinds: []string{"sts", "sts", "dp", "cr", "bare", "dppool"}}

func checkC10(c Case, r *vcore.Rec) *vcore.Failure {
	o := &ObsC10{}
	x, f := runHistory(c, r, o)
	if x == nil {
		return f
	}
	r.ClassIf(o.Moved, "pod_identity_moved_node")
	r.ClassIf(o.ProvFail, "provider_call_failed")
	r.ClassIf(o.Dropped, "assigned_ip_deconfigured")
	if o.Moved || o.ProvFail {
		r.NonTrivial()
	}
	return f
}

func TestC10(t *testing.T) {
	vcore.Run(t, "C10", rapid.Custom(func(t *rapid.T) Case {
		c := GenHistory(t, c10Params)
		if len(c.Configs) > 1 && rapid.IntRange(0, 2).Draw(t, "deconfigStory") == 0 {
			// an address is taken out of the configuration under a running pod and put back; the pod-IP sync re-creates its record
			// from the pod; then the pod goes away like any other
			arg := func(k string) Op {
				return Op{K: k, A: rapid.IntRange(0, 7).Draw(t, "da"), B: rapid.IntRange(0, 63).Draw(t, "db"), C: rapid.IntRange(0, 7).Draw(t, "dc")}
			}
			story := []Op{arg("create"), {K: "sched", B: 63}, {K: "phase"}, {K: "deliver"}, {K: "deliver"},
				{K: "reload", A: 1 + rapid.IntRange(0, len(c.Configs)-2).Draw(t, "dcfg")}, {K: "reload", A: 0}, {K: "syncips"}}
			if rapid.Bool().Draw(t, "dmissed") {
				story = append(story, Op{K: "delete"}, Op{K: "deliver"}, Op{K: "deliver"}, Op{K: "unbind"}, Op{K: "resync"})
			} else {
				story = append(story, Op{K: "delete"}, Op{K: "drop"}, Op{K: "drop"}, Op{K: "resync"}, Op{K: "resync"})
			}
			at := 0
			if rapid.Bool().Draw(t, "dlate") {
				at = rapid.IntRange(0, len(c.Ops)).Draw(t, "dat")
			}
			c.Ops = append(c.Ops[:at:at], append(story, c.Ops[at:]...)...)
		}
		return c
	}), checkC10)
}

var c07Params = &HistoryParams{MinOps: 10, MaxOps: 35, Cloud: 0, Episodes: true, Phrases: 20, FaultPct: 25, Lag: true,
	Weights: map[string]int{"create": 22, "sched": 10, "filter": 10, "bind": 6, "poolapi": 12, "poolobj": 4, "delete": 6, "deliver": 6,
		"unbind": 6, "drop": 0, "reserve": 0, "unreserve": 0, "fipevent": 0, "apirelease": 1, "restart": 0, "episode": 30, "resync": 2,
		"recreate": 1, "scale": 1, "delwl": 0, "mkwl": 0, "phase": 2, "quiesce": 1},
	Kinds: []string{"dppool"}, Policies: []string{"", "never", "immutable"}}

func genC07() *rapid.Generator[Case] {
	return rapid.Custom(func(t *rapid.T) Case {
		if rapid.IntRange(0, 39).Draw(t, "startupCase") == 39 {
			return Case{Startup: genStartup(t)}
		}
		c := GenHistory(t, c07Params)
		c.NoNameReuse = true
		// every deployment shares one of two pools and every pool has a Pool object with a size
		have := map[string]bool{}
		for _, p := range c.PoolObjs {
			have[p.Name] = true
		}
		for _, wl := range c.WLs {
			if wl.Pool != "" && !have[wl.Pool] {
				have[wl.Pool] = true
				c.PoolObjs = append(c.PoolObjs, PoolObj{Name: wl.Pool, Size: rapid.IntRange(0, 4).Draw(t, "size")})
			}
		}
		// episodes of this property: concurrent filters of different pods, pool create/update with pre-allocation, unbind
		for i := range c.Ops {
			if c.Ops[i].K == "episode" {
				n := rapid.IntRange(2, 3).Draw(t, "nSub7")
				c.Ops[i].Sub = nil
				for j := 0; j < n; j++ {
					k := rapid.SampledFrom([]string{"filter", "filter", "sched", "poolapi", "poolapi", "unbind"}).Draw(t, "sub7")
					c.Ops[i].Sub = append(c.Ops[i].Sub, Op{K: k, A: rapid.IntRange(0, 7).Draw(t, "a7"), B: rapid.IntRange(0, 63).Draw(t, "b7"),
						C: rapid.IntRange(0, 7).Draw(t, "c7")})
				}
			}
		}
		return c
	})
}

func checkC07(c Case, r *vcore.Rec) *vcore.Failure {
	if c.Startup != nil {
		return checkStartup(c.Startup, r)
	}
	if f := maybeEnumerate(c, r, func() []Observer { return []Observer{&ObsC07{}} }); f != nil {
		return f
	}
	o := &ObsC07{}
	x, f := runHistory(c, r, o)
	if x == nil {
		return f
	}
	r.ClassIf(o.PreAlloc, "pre_allocation")
	if x.Stats["episode_overlapped"] > 0 {
		r.NonTrivial()
	}
	return f
}

func TestC07(t *testing.T) {
	vcore.Run(t, "C07", genC07(), checkC07)
}

var c09Params = &HistoryParams{MinOps: 12, MaxOps: 40, Cloud: 0, Episodes: true, Reloads: true, Phrases: 25, Ranges: true, FaultPct: 25,
	Weights: map[string]int{"reload": 14, "reserve": 16, "unreserve": 8, "fipevent": 14, "sched": 18, "create": 16, "drop": 0, "restart": 1,
		"syncips": 4, "apirelease": 3, "poolapi": 2}}

func genC09() *rapid.Generator[Case] {
	return rapid.Custom(func(t *rapid.T) Case {
		c := GenHistory(t, c09Params)
		addReservationStories(t, &c, true)
		if rapid.IntRange(0, 2).Draw(t, "releaseVsReload") == 0 && len(c.Ops) > 0 {
			// an administrator releases the IP a gone pod left behind while the configuration is reloaded: the release has written
			// to the store (or is about to) when the reload rebuilds the tables
			arg := func(k string) Op {
				return Op{K: k, A: rapid.IntRange(0, 7).Draw(t, "va9"), B: rapid.IntRange(0, 63).Draw(t, "vb9"), C: rapid.IntRange(0, 7).Draw(t, "vc9")}
			}
			var sch []int
			for i, k := 0, 8+uniformInt(t, 10, "releasePrefix9"); i < k; i++ {
				sch = append(sch, 0)
			}
			for i := 0; i < 80; i++ {
				sch = append(sch, 1)
			}
			story := []Op{arg("delete"), {K: "deliver"}, {K: "deliver"}, {K: "episode", Sub: []Op{arg("apireleasable"), arg("reload")}, Sched: sch},
				arg("create"), arg("sched")}
			at := rapid.IntRange(0, len(c.Ops)).Draw(t, "rvrAt")
			if c.FaultAt != nil && c.FaultAt.Op >= at {
				c.FaultAt.Op += len(story)
			}
			c.Ops = append(c.Ops[:at:at], append(story, c.Ops[at:]...)...)
		}
		for i := range c.Ops {
			if c.Ops[i].K == "episode" && len(c.Ops[i].Sub) == 2 && c.Ops[i].Sub[0].K == "apireleasable" {
				continue // the story above keeps its actors
			}
			if c.Ops[i].K == "episode" && rapid.IntRange(0, 2).Draw(t, "reloadEpisode") > 0 {
				// a reload concurrently with allocate / release / pod-IP sync / reservation events
				other := rapid.SampledFrom([]string{"sched", "sched", "unbind", "syncips", "fipevent", "apirelease", "bind"}).Draw(t, "vsReload")
				c.Ops[i].Sub = []Op{{K: "reload", A: rapid.IntRange(0, 7).Draw(t, "cfg")},
					{K: other, A: rapid.IntRange(0, 7).Draw(t, "a9"), B: rapid.IntRange(0, 63).Draw(t, "b9"), C: rapid.IntRange(0, 7).Draw(t, "c9")}}
			}
		}
		return c
	})
}

func checkC09(c Case, r *vcore.Rec) *vcore.Failure {
	if f := maybeEnumerate(c, r, func() []Observer { return []Observer{&ObsC09{}} }); f != nil {
		return f
	}
	o := &ObsC09{}
	x, f := runHistory(c, r, o)
	if x == nil {
		return f
	}
	r.ClassIf(o.DroppedKept, "reload_dropped_and_kept")
	r.ClassIf(x.Stats["op:reserve"] > 0, "reservation")
	if o.DroppedKept || (x.Stats["episode_overlapped"] > 0 && x.Stats["op:reload"] > 0) {
		r.NonTrivial()
	}
	return f
}

func TestC09(t *testing.T) {
	vcore.Run(t, "C09", genC09(), checkC09)
}
