package ipamsim

import (
	"os"
	"testing"

	"pgregory.net/rapid"
	"verifharness/vcore"
)

func TestMain(m *testing.M) {
	vcore.QuietKlog()
	os.Exit(m.Run())
}

func classify(x *Exec, r *vcore.Rec) {
	for k := range x.Stats {
		r.Class(k)
	}
	names := map[string]int{}
	bound := 0
	for _, p := range x.W.AllPods {
		names[p.Name]++
		if p.Bound {
			bound++
		}
	}
	for _, n := range names {
		if n >= 2 {
			r.Class("same_name_recreated")
		}
	}
	r.ClassIf(bound >= 2, "two_pods_bound")
	r.ClassIf(x.C.Lag, "lister_lag")
	r.ClassIf(x.C.Cloud, "cloud_provider")
}

func runHistory(c Case, r *vcore.Rec, obs ...Observer) (*Exec, *vcore.Failure) {
	x, err := NewExec(&c, r, obs...)
	if err != nil {
		return nil, vcore.Failf("harness:init", "world construction failed: %v", err)
	}
	f := x.Run()
	classify(x, r)
	return x, f
}

var c01Params = &HistoryParams{MinOps: 15, MaxOps: 60, Episodes: true, Cloud: 1, Lag: true, Ranges: true}

func checkC01(c Case, r *vcore.Rec) *vcore.Failure {
	o := &ObsC01{}
	x, f := runHistory(c, r, o)
	if x == nil {
		return f
	}
	bound := 0
	for _, p := range x.W.AllPods {
		if p.Bound {
			bound++
		}
	}
	if bound >= 2 && (o.Realloc || x.Stats["episode_overlapped"] > 0) {
		r.NonTrivial()
	}
	r.ClassIf(o.Realloc, "ip_reallocated")
	return f
}

func TestC01(t *testing.T) {
	vcore.Run(t, "C01", rapid.Custom(func(t *rapid.T) Case { return GenHistory(t, c01Params) }), checkC01)
}

var c04Params = &HistoryParams{MinOps: 15, MaxOps: 50, Episodes: true, Cloud: 1, Lag: true, Reloads: true,
	Weights: map[string]int{"create": 18, "delete": 14, "phase": 10, "drop": 0, "restart": 1, "apirelease": 5, "resync": 6,
		"reserve": 0, "unreserve": 0, "fipevent": 0, "poolapi": 1},
	Kinds: []string{"sts", "sts", "dp", "cr", "bare", "dppool"}}

func checkC04(c Case, r *vcore.Rec) *vcore.Failure {
	o := &ObsC04{}
	x, f := runHistory(c, r, o)
	if x == nil {
		return f
	}
	if o.Dangerous {
		r.NonTrivial()
		r.Class("release_path_with_live_replacement")
	}
	return f
}

func TestC04(t *testing.T) {
	vcore.Run(t, "C04", rapid.Custom(func(t *rapid.T) Case { return GenHistory(t, c04Params) }), checkC04)
}

var c02Params = &HistoryParams{MinOps: 15, MaxOps: 50, Cloud: 0, Lag: true,
	Weights: map[string]int{"create": 18, "delete": 14, "sched": 20, "phase": 5, "deliver": 14, "unbind": 14, "drop": 0, "reserve": 0,
		"unreserve": 0, "fipevent": 0, "apirelease": 1, "restart": 1, "poolapi": 1, "scale": 3},
	Kinds: []string{"sts", "dp", "dp", "cr", "nscr", "bare", "dppool"}, Policies: []string{"immutable", "never", "never", ""}}

func checkC02(c Case, r *vcore.Rec) *vcore.Failure {
	o := &ObsC02{}
	x, f := runHistory(c, r, o)
	if x == nil {
		return f
	}
	if o.Sticky > 0 {
		r.NonTrivial()
		r.Class("bound_with_reservation")
	}
	return f
}

func TestC02(t *testing.T) {
	vcore.Run(t, "C02", rapid.Custom(func(t *rapid.T) Case { return GenHistory(t, c02Params) }), checkC02)
}

var c03Params = &HistoryParams{MinOps: 15, MaxOps: 50, Cloud: 0, Lag: true, EndQuiesce: true,
	Weights: map[string]int{"create": 16, "delete": 14, "sched": 18, "phase": 8, "deliver": 10, "unbind": 10, "drop": 3, "reserve": 0,
		"unreserve": 0, "fipevent": 0, "apirelease": 0, "restart": 1, "poolapi": 0, "poolobj": 0, "scale": 6, "delwl": 3, "mkwl": 2,
		"quiesce": 4, "resync": 6}}

func checkC03(c Case, r *vcore.Rec) *vcore.Failure {
	o := &ObsC03{}
	x, f := runHistory(c, r, o)
	if x == nil {
		return f
	}
	r.ClassIf(o.Keeps > 0, "keep_decision")
	r.ClassIf(o.Releases > 0, "release_decision")
	if o.Keeps > 0 && o.Releases > 0 && o.ScaleOrDelete {
		r.NonTrivial()
	}
	return f
}

func TestC03(t *testing.T) {
	vcore.Run(t, "C03", rapid.Custom(func(t *rapid.T) Case { return GenHistory(t, c03Params) }), checkC03)
}

var c10Params = &HistoryParams{MinOps: 15, MaxOps: 50, Cloud: 2, CloudFail: true, Lag: true, Episodes: true,
	Weights: map[string]int{"create": 18, "delete": 14, "sched": 20, "phase": 6, "deliver": 12, "unbind": 12, "drop": 1, "reserve": 0,
		"unreserve": 0, "fipevent": 0, "apirelease": 4, "restart": 1, "resync": 6},
	Kinds: []string{"sts", "sts", "dp", "cr", "bare", "dppool"}}

func checkC10(c Case, r *vcore.Rec) *vcore.Failure {
	o := &ObsC10{}
	x, f := runHistory(c, r, o)
	if x == nil {
		return f
	}
	r.ClassIf(o.Moved, "pod_identity_moved_node")
	r.ClassIf(o.ProvFail, "provider_call_failed")
	if o.Moved || o.ProvFail {
		r.NonTrivial()
	}
	return f
}

func TestC10(t *testing.T) {
	vcore.Run(t, "C10", rapid.Custom(func(t *rapid.T) Case { return GenHistory(t, c10Params) }), checkC10)
}
