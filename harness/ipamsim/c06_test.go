package ipamsim

import (
	"encoding/json"
	"fmt"
	"net"
	"sort"
	"strings"
	"testing"

	"pgregory.net/rapid"
	"tkestack.io/galaxy/pkg/api/galaxy/constant"
	"tkestack.io/galaxy/pkg/ipam/floatingip"
	"verifharness/vcore"
)

// ---------- C06: filter-approved nodes can be bound and get a routable IP ----------

type c06Case struct {
	Topo     Topo  `json:"topo"`
	WL       WL    `json:"wl"`
	PreAlloc []int `json:"pre_alloc"` // picks of configured IPs allocated to other owners beforehand
	Exhaust  int   `json:"exhaust"`   // pick of a pool to exhaust completely (-1 none)
	Held     int   `json:"held"`      // pick of a free IP the pod already holds (-1 none)
	Held2    int   `json:"held2"`     // pick of a second held IP for pods requesting ranges (-1 none)
	Cands    int   `json:"cands"`     // candidate node mask
	BindPick int   `json:"bind_pick"`
	BindAll  bool  `json:"bind_all"` // thorough: bind every returned node on a rebuilt world
	Restart  bool  `json:"restart"`  // galaxy-ipam is restarted (memory rebuilt from the store) before the pod is filtered
	// AppReserved: picks of free IPs reserved under the app prefix of an immutable/never deployment (left behind by earlier pods)
	AppReserved []int `json:"app_reserved,omitempty"`
}

func genC06() *rapid.Generator[c06Case] {
	return rapid.Custom(func(t *rapid.T) c06Case {
		c := c06Case{Topo: GenTopo(t, 6), Exhaust: -1, Held: -1, Held2: -1}
		kinds := []string{"sts", "sts", "dp", "cr", "bare", "dp"}
		k := rapid.SampledFrom(kinds).Draw(t, "kind")
		c.WL = WL{Kind: k, Name: map[string]string{"sts": "s0", "dp": "d0", "cr": "c0", "bare": "b0"}[k], Replicas: 3,
			Policy: rapid.SampledFrom([]string{"", "", "immutable", "never"}).Draw(t, "policy")}
		if k == "bare" {
			c.WL.Policy = ""
		}
		if rapid.IntRange(0, 2).Draw(t, "ranges") == 0 && !(k == "dp" && c.WL.Policy != "") {
			c.WL.Ranges = genRanges(t, c.Topo, rapid.IntRange(1, 3).Draw(t, "k"))
		}
		n := rapid.IntRange(0, 6).Draw(t, "nPre")
		for i := 0; i < n; i++ {
			c.PreAlloc = append(c.PreAlloc, rapid.IntRange(0, 1000).Draw(t, "pre"))
		}
		if rapid.IntRange(0, 2).Draw(t, "exhaust") == 0 {
			c.Exhaust = rapid.IntRange(0, 7).Draw(t, "exhaustPool")
		}
		if rapid.IntRange(0, 2).Draw(t, "held") == 0 {
			c.Held = rapid.IntRange(0, 1000).Draw(t, "heldPick")
			if len(c.WL.Ranges) >= 2 && rapid.Bool().Draw(t, "held2") {
				c.Held2 = rapid.IntRange(0, 1000).Draw(t, "held2Pick")
			}
		}
		if k == "dp" && c.WL.Policy != "" && rapid.IntRange(0, 2).Draw(t, "appReserved") > 0 {
			for i, n := 0, rapid.IntRange(1, 3).Draw(t, "nAppReserved"); i < n; i++ {
				c.AppReserved = append(c.AppReserved, rapid.IntRange(0, 1000).Draw(t, "appReservedPick"))
			}
		}
		c.Cands = rapid.IntRange(0, 255).Draw(t, "cands")
		if rapid.Bool().Draw(t, "allCands") {
			c.Cands = 255
		}
		c.BindPick = rapid.IntRange(0, 7).Draw(t, "bindPick")
		c.Restart = rapid.IntRange(0, 3).Draw(t, "restart") == 0
		return c
	})
}

func sortedIPs(m map[string]int) []string {
	var out []string
	for ip := range m {
		out = append(out, ip)
	}
	sort.Slice(out, func(i, j int) bool { return ipLess(out[i], out[j]) })
	return out
}

func inRangeList(list []string, ip string) bool {
	x := ipU32(ip)
	for _, r := range list {
		parts := strings.SplitN(r, "~", 2)
		a := ipU32(parts[0])
		b := a
		if len(parts) == 2 {
			b = ipU32(parts[1])
		}
		if x >= a && x <= b {
			return true
		}
	}
	return false
}

// setupC06 builds the world and the pre-state; returns the world, the pod record and the set of free IPs.
func setupC06(c *c06Case) (*Exec, *PodRec, map[string]bool, []string, *vcore.Failure) {
	hc := &Case{Topo: c.Topo, WLs: []WL{c.WL}}
	x, err := NewExec(hc, &vcore.Rec{})
	if err != nil {
		return nil, nil, nil, nil, vcore.Failf("harness:init", "world construction failed: %v", err)
	}
	w := x.W
	all := c.Topo.AllIPs()
	ips := sortedIPs(all)
	ipam := w.Plugin.GetIpam()
	free := map[string]bool{}
	for _, ip := range ips {
		free[ip] = true
	}
	other := 0
	alloc := func(ip, key, uid string) {
		if !free[ip] {
			return
		}
		if err := ipam.AllocateSpecificIP(key, net.ParseIP(ip), floatingip.Attr{Policy: constant.ReleasePolicyNever, Uid: uid}); err == nil {
			free[ip] = false
		}
	}
	for _, p := range c.PreAlloc {
		other++
		alloc(ips[p%len(ips)], fmt.Sprintf("sts_%s_zz_zz-%d", NS, other), "other")
	}
	if c.Exhaust >= 0 {
		pi := c.Exhaust % len(c.Topo.Pools)
		for _, ip := range ips {
			if all[ip] == pi {
				other++
				alloc(ip, fmt.Sprintf("sts_%s_zz_zz-%d", NS, other), "other")
			}
		}
	}
	pod := w.CreatePod(0, &hc.WLs[0], hc.WLs[0].PodName(1))
	var held []string
	for _, hp := range []int{c.Held, c.Held2} {
		if hp < 0 {
			continue
		}
		var fr []string
		for _, ip := range ips {
			if !free[ip] {
				continue
			}
			ok := len(c.WL.Ranges) == 0 && len(held) == 0
			for _, l := range c.WL.Ranges {
				if inRangeList(l, ip) {
					ok = true
					for _, h := range held {
						if inRangeList(l, h) {
							ok = false // at most one held IP per requested range
						}
					}
				}
			}
			if ok {
				fr = append(fr, ip)
			}
		}
		if len(fr) > 0 {
			ip := fr[hp%len(fr)]
			// the pod's identity already owns the IP (reserved by an earlier incarnation whose delete was handled: no uid)
			if err := ipam.AllocateSpecificIP(pod.Key, net.ParseIP(ip), floatingip.Attr{Policy: constant.ReleasePolicy(c.WL.PolicyNum())}); err == nil {
				free[ip] = false
				held = append(held, ip)
			}
		}
	}
	if len(held) == 0 {
		prefix := strings.TrimSuffix(pod.Key, pod.Name)
		for _, ap := range c.AppReserved {
			var fr []string
			for _, ip := range ips {
				if free[ip] {
					fr = append(fr, ip)
				}
			}
			if len(fr) == 0 {
				break
			}
			ip := fr[ap%len(fr)]
			if err := ipam.AllocateSpecificIP(prefix, net.ParseIP(ip), floatingip.Attr{Policy: constant.ReleasePolicy(c.WL.PolicyNum())}); err == nil {
				free[ip] = false
			}
		}
	}
	if c.Restart {
		if err := w.Restart(); err != nil {
			return nil, nil, nil, nil, vcore.Failf("harness:restart", "restart failed: %v", err)
		}
	}
	return x, pod, free, held, nil
}

func checkC06(c c06Case, r *vcore.Rec) *vcore.Failure {
	x, pod, free, held, f := setupC06(&c)
	if f != nil {
		return f
	}
	w := x.W
	all := c.Topo.AllIPs()
	pools := c.Topo.Pools
	cands := x.candSet(c.Cands)
	nodes, failed, err, _ := w.Filter(pod.Name, cands)
	r.Logf("filter %s cands=%v -> nodes=%v failed=%v err=%v held=%v state=%s", pod.Name, cands, nodes, failed, err, held, w.DumpState())
	// model: which candidates have a free routable IP for every request
	routableFree := func(nodeIP string, list []string) bool {
		for ip, isFree := range free {
			if !isFree {
				continue
			}
			if list != nil && !inRangeList(list, ip) {
				continue
			}
			if pools[all[ip]].RoutableFrom(nodeIP) {
				return true
			}
		}
		return false
	}
	subnets := map[string]bool{}
	for _, n := range c.Topo.Nodes {
		if s := NodeSubnetOf(pools, n.IP); s != "" {
			subnets[s] = true
		}
	}
	r.ClassIf(len(held) > 0, "pod_holds_ip")
	r.ClassIf(len(held) > 1, "pod_holds_two_ips")
	r.ClassIf(len(c.WL.Ranges) > 0, "request_ranges")
	r.ClassIf(c.Restart, "restarted_before_filter")
	r.ClassIf(c.WL.PolicyNum() == 0 && len(held) == 0, "fresh_default_pod")
	if err != nil {
		r.Class("filter_error")
		return nil // documented refusals (unsupported policy, wait for releasing, ...) are accepted outcomes
	}
	// every candidate is either returned or in the failed map
	for _, cn := range cands {
		_, inFailed := failed[cn]
		if contains(nodes, cn) == inFailed {
			return vcore.Failf("c06:partition", "candidate %s: returned=%v failed-map=%v", cn, contains(nodes, cn), inFailed)
		}
		if ip := x.nodeIP(cn); (ip == "" || NodeSubnetOf(pools, ip) == "") && contains(nodes, cn) {
			return vcore.Failf("c06:unknown_node", "node %s (address %q) is outside every node subnet but filter returned it", cn, ip)
		}
	}
	// (iii) a pod that holds IPs is only offered nodes from which they are routable
	for _, h := range held {
		if len(c.WL.Ranges) == 0 && h != held[0] {
			continue
		}
		for _, n := range nodes {
			if !pools[all[h]].RoutableFrom(x.nodeIP(n)) {
				return vcore.Failf("c06:held_unroutable", "pod holds %s (pool node subnets %v) but filter offered node %s (%s)", h,
					pools[all[h]].NodeSubnets, n, x.nodeIP(n))
			}
		}
	}
	// (iii') an IP handed to the pod during filter (a reserved IP of its app) counts as held from then on
	if len(held) == 0 {
		now, _, _ := w.TryTables()
		for ip, f := range now {
			if f.Key != pod.Key {
				continue
			}
			r.Class("ip_taken_during_filter")
			for _, n := range nodes {
				if pi, ok := all[ip]; ok && !pools[pi].RoutableFrom(x.nodeIP(n)) {
					return vcore.Failf("c06:held_unroutable", "filter gave the pod %s (pool node subnets %v) and offered node %s (%s)", ip,
						pools[pi].NodeSubnets, n, x.nodeIP(n))
				}
			}
		}
	}
	// (iv) fresh default-policy pod: exactly the candidates with a free routable IP for every requested range
	if c.WL.PolicyNum() == 0 && len(held) == 0 {
		for _, cn := range cands {
			nip := x.nodeIP(cn)
			want := nip != "" && NodeSubnetOf(pools, nip) != ""
			if want {
				if len(c.WL.Ranges) == 0 {
					want = routableFree(nip, nil)
				} else {
					for _, l := range c.WL.Ranges {
						if !routableFree(nip, l) {
							want = false
						}
					}
				}
			}
			if want != contains(nodes, cn) {
				return vcore.Failf("c06:filter_set", "candidate %s (%s): model says offered=%v, filter says %v (ranges %v, free %v)", cn, nip, want,
					contains(nodes, cn), c.WL.Ranges, freeList(free))
			}
		}
	}
	if len(subnets) >= 2 && len(nodes) > 0 && len(nodes) < len(cands) {
		r.NonTrivial()
	}
	if len(nodes) == 0 {
		return nil
	}
	// (i)+(ii) bind a returned node with nothing else changed
	bindOne := func(x *Exec, pod *PodRec, node string) *vcore.Failure {
		err, _ := x.W.Bind(pod.Name, pod.UID, node)
		r.Logf("bind %s -> %s err=%v payload=%v", pod.Name, node, err, pod.Payload)
		if err != nil {
			if strings.Contains(err.Error(), "waiting for delete event") {
				return nil
			}
			return vcore.Failf("c06:bind_failed", "filter returned node %s for %s but bind failed: %v", node, pod.Name, err)
		}
		if !pod.Bound || len(pod.PayloadInfos) == 0 {
			return vcore.Failf("c06:no_payload", "bind succeeded without a binding payload")
		}
		for _, info := range pod.PayloadInfos {
			ip := info.IP.IP.String()
			pi, ok := all[ip]
			if !ok {
				return vcore.Failf("c06:unconfigured", "bound with unconfigured IP %s", ip)
			}
			p := pools[pi]
			if !p.RoutableFrom(x.nodeIP(node)) {
				return vcore.Failf("c06:unroutable", "pod bound to node %s (%s) got IP %s of a pool routable only from %v", node, x.nodeIP(node), ip,
					p.NodeSubnets)
			}
			ones, _ := info.IP.Mask.Size()
			if ones != p.MaskLen() || info.Gateway.String() != p.Gateway || info.Vlan != p.Vlan {
				data, _ := json.Marshal(info)
				return vcore.Failf("c06:ipinfo", "IP %s written with %s but its pool has mask /%d gateway %s vlan %d", ip, data, p.MaskLen(),
					p.Gateway, p.Vlan)
			}
		}
		return nil
	}
	if !c.BindAll {
		return bindOne(x, pod, nodes[c.BindPick%len(nodes)])
	}
	for i, n := range nodes {
		xx, pp := x, pod
		if i > 0 {
			var ff *vcore.Failure
			xx, pp, _, _, ff = setupC06(&c)
			if ff != nil {
				return ff
			}
			if ns, _, err, _ := xx.W.Filter(pp.Name, cands); err != nil || !contains(ns, n) {
				continue // IPAM's own choices (map order) led elsewhere this time
			}
		}
		if f := bindOne(xx, pp, n); f != nil {
			return f
		}
	}
	return nil
}

func freeList(free map[string]bool) []string {
	var out []string
	for ip, f := range free {
		if f {
			out = append(out, ip)
		}
	}
	sort.Slice(out, func(i, j int) bool { return ipLess(out[i], out[j]) })
	return out
}

func TestC06(t *testing.T) { vcore.Run(t, "C06", genC06(), checkC06) }

func TestC06All(t *testing.T) {
	g := genC06()
	vcore.Run(t, "C06", rapid.Custom(func(t *rapid.T) c06Case {
		c := g.Draw(t, "c")
		c.BindAll = true
		return c
	}), checkC06)
}
