package nf

import (
	"bytes"
	"fmt"
	"os"
	"os/exec"
	"sort"
	"strings"
	"testing"

	utilexec "k8s.io/utils/exec"
	"pgregory.net/rapid"
	utiliptables "tkestack.io/galaxy/pkg/utils/iptables"
)

// Model-vs-kernel differential: generated sequences of the batch shapes galaxy emits are applied to the strict fake and,
// through the repository's exec-backed iptables interface, to the real kernel inside a private network namespace
// (unshare -n). Accept/reject decisions, chain sets and per-chain target sequences must agree.
//
// TestKernelDiff re-executes this test binary under `unshare -n`; it is skipped when namespaces or iptables are missing.

func TestKernelDiff(t *testing.T) {
	if os.Getenv("VERIF_IN_NETNS") == "1" {
		kernelDiffInner(t)
		return
	}
	for _, bin := range []string{"unshare", "iptables", "iptables-restore", "iptables-save"} {
		if _, err := exec.LookPath(bin); err != nil {
			t.Skipf("kernel differential skipped: %s not available", bin)
		}
	}
	if out, err := exec.Command("unshare", "-n", "iptables", "-w", "-S").CombinedOutput(); err != nil {
		t.Skipf("kernel differential skipped: iptables in a private network namespace does not work here: %v %s", err, out)
	}
	args := []string{"-n", os.Args[0], "-test.run", "^TestKernelDiff$", "-test.count", "1"}
	for i, a := range os.Args[1:] {
		if strings.HasPrefix(a, "-rapid.") {
			args = append(args, a)
			if !strings.Contains(a, "=") && i+2 < len(os.Args) {
				args = append(args, os.Args[i+2])
			}
		}
	}
	cmd := exec.Command("unshare", args...)
	cmd.Env = append(os.Environ(), "VERIF_IN_NETNS=1")
	out, err := cmd.CombinedOutput()
	t.Logf("%s", out)
	if err != nil {
		t.Fatalf("model-vs-kernel differential failed: %v", err)
	}
}

type kop struct {
	Kind  string
	Chain int
	To    int
	Lines []string
}

var kchains = []string{"VF-A", "VF-B", "VF-C", "VF-D"}

func genBatch(t *rapid.T) string {
	var chains, rules []string
	n := rapid.IntRange(1, 4).Draw(t, "nLines")
	decl := map[int]bool{}
	for i := 0; i < n; i++ {
		c := rapid.IntRange(0, len(kchains)-1).Draw(t, "chain")
		switch rapid.IntRange(0, 3).Draw(t, "lineKind") {
		case 0:
			if !decl[c] {
				decl[c] = true
				chains = append(chains, ":"+kchains[c]+" - [0:0]")
			}
		case 1:
			// jumps only to chains with a higher index: the kernel refuses loops, galaxy never emits any
			opts := []string{"ACCEPT", "DROP", "RETURN"}
			opts = append(opts, kchains[c+1:]...)
			tg := rapid.SampledFrom(opts).Draw(t, "target")
			rules = append(rules, fmt.Sprintf("-A %s -s 10.%d.0.0/16 -m comment --comment \"r %d\" -j %s", kchains[c], rapid.IntRange(0, 3).Draw(t, "net"), i, tg))
		case 2:
			rules = append(rules, "-X "+kchains[c])
		case 3:
			tg := kchains[rapid.IntRange(0, len(kchains)-1).Draw(t, "jump")]
			rules = append(rules, fmt.Sprintf("-A FORWARD -d 10.9.%d.1/32 -j %s", c, tg))
		}
	}
	return "*filter\n" + strings.Join(append(chains, rules...), "\n") + "\nCOMMIT\n"
}

func shape(save string) string {
	// chain set + per chain target sequence
	chains := map[string][]string{}
	for _, l := range strings.Split(save, "\n") {
		if strings.HasPrefix(l, ":") {
			name := strings.Fields(l[1:])[0]
			if _, ok := chains[name]; !ok {
				chains[name] = nil
			}
		}
		if strings.HasPrefix(l, "-A ") {
			f := Tokenize(l)
			tg := ""
			for i := range f {
				if f[i] == "-j" && i+1 < len(f) {
					tg = f[i+1]
				}
			}
			chains[f[1]] = append(chains[f[1]], tg)
		}
	}
	var names []string
	for n := range chains {
		names = append(names, n)
	}
	sort.Strings(names)
	var b strings.Builder
	for _, n := range names {
		fmt.Fprintf(&b, "%s:%s\n", n, strings.Join(chains[n], ","))
	}
	return b.String()
}

func kernelDiffInner(t *testing.T) {
	real := utiliptables.New(utilexec.New(), utiliptables.ProtocolIpv4)
	seq := 0
	rapid.Check(t, func(rt *rapid.T) {
		seq++
		// fresh kernel table and fresh fake
		_ = exec.Command("iptables", "-w", "-F").Run()
		_ = exec.Command("iptables", "-w", "-X").Run()
		fake := NewIPTables(nil)
		nops := rapid.IntRange(1, 6).Draw(rt, "nOps")
		for i := 0; i < nops; i++ {
			var ferr, kerr error
			desc := ""
			c := utiliptables.Chain(kchains[rapid.IntRange(0, len(kchains)-1).Draw(rt, "c")])
			switch rapid.IntRange(0, 5).Draw(rt, "op") {
			case 0, 1:
				b := genBatch(rt)
				desc = "restore\n" + b
				ferr = fake.RestoreAll([]byte(b), utiliptables.NoFlushTables, utiliptables.RestoreCounters)
				kerr = real.RestoreAll([]byte(b), utiliptables.NoFlushTables, utiliptables.RestoreCounters)
			case 2:
				desc = "ensure-chain " + string(c)
				_, ferr = fake.EnsureChain(utiliptables.TableFilter, c)
				_, kerr = real.EnsureChain(utiliptables.TableFilter, c)
			case 3:
				tg := "ACCEPT"
				for ci, n := range kchains {
					if n == string(c) && ci+1 < len(kchains) {
						tg = kchains[ci+1+rapid.IntRange(0, len(kchains)-ci-2).Draw(rt, "tg")]
					}
				}
				args := []string{"-s", "10.7.0.0/16", "-j", tg}
				desc = "ensure-rule " + string(c) + " -> " + tg
				_, ferr = fake.EnsureRule(utiliptables.Append, utiliptables.TableFilter, c, args...)
				_, kerr = real.EnsureRule(utiliptables.Append, utiliptables.TableFilter, c, args...)
			case 4:
				desc = "delete-chain " + string(c)
				ferr = fake.DeleteChain(utiliptables.TableFilter, c)
				kerr = real.DeleteChain(utiliptables.TableFilter, c)
			case 5:
				desc = "flush-chain " + string(c)
				ferr = fake.FlushChain(utiliptables.TableFilter, c)
				kerr = real.FlushChain(utiliptables.TableFilter, c)
			}
			if (ferr == nil) != (kerr == nil) {
				rt.Fatalf("accept/reject disagreement on %s: fake err=%v kernel err=%v", desc, ferr, kerr)
			}
			var kb bytes.Buffer
			if err := real.SaveInto(utiliptables.TableFilter, &kb); err != nil {
				rt.Fatalf("iptables-save: %v", err)
			}
			if fs, ks := shape(fake.Save("filter")), shape(kb.String()); fs != ks {
				rt.Fatalf("state disagreement after %s:\n--- fake\n%s--- kernel\n%s", desc, fs, ks)
			}
		}
	})
}
