package nf

import (
	"fmt"
	"net"
	"sort"
	"strings"
	"sync"

	"tkestack.io/galaxy/pkg/utils/ipset"
)

type member struct {
	entry   string // canonical text (no /32 suffix)
	nomatch bool
}

type set struct {
	name    string
	typ     ipset.Type
	members map[string]*member
}

// IPSet is the strict ipset fake.
type IPSet struct {
	mu      sync.Mutex
	rmu     sync.Mutex // guards Rejects (reject is called with and without mu held)
	sets    map[string]*set
	ipt     *IPTables
	Rejects []Rejected
}

func NewIPSet() *IPSet { return &IPSet{sets: map[string]*set{}} }

func (s *IPSet) exists(name string) bool {
	s.mu.Lock()
	defer s.mu.Unlock()
	_, ok := s.sets[name]
	return ok
}

func (s *IPSet) reject(op, text string, err error) error {
	s.rmu.Lock()
	s.Rejects = append(s.Rejects, Rejected{Op: op, Text: text, Err: err.Error()})
	s.rmu.Unlock()
	return err
}

func canonEntry(typ ipset.Type, e string) (string, error) {
	e = strings.TrimSpace(e)
	switch typ {
	case ipset.HashIP:
		ip := net.ParseIP(e)
		if ip == nil || ip.To4() == nil {
			return "", fmt.Errorf("ipset: Syntax error: cannot parse %s: resolving to IPv4 address failed", e)
		}
		return ip.To4().String(), nil
	case ipset.HashNet:
		if !strings.Contains(e, "/") {
			ip := net.ParseIP(e)
			if ip == nil || ip.To4() == nil {
				return "", fmt.Errorf("ipset: Syntax error: cannot parse %s", e)
			}
			return ip.To4().String(), nil
		}
		_, n, err := net.ParseCIDR(e)
		if err != nil {
			return "", fmt.Errorf("ipset: Syntax error: cannot parse %s", e)
		}
		ones, _ := n.Mask.Size()
		if ones == 0 {
			return "", fmt.Errorf("ipset: The value of the CIDR parameter of the IP address is invalid (/0 is not supported by hash:net)")
		}
		if ones == 32 {
			return n.IP.String(), nil
		}
		return n.String(), nil
	}
	return e, nil
}

func (s *IPSet) FlushSet(name string) error {
	s.mu.Lock()
	defer s.mu.Unlock()
	st, ok := s.sets[name]
	if !ok {
		return s.reject("flush", name, fmt.Errorf("ipset: The set with the given name does not exist"))
	}
	st.members = map[string]*member{}
	return nil
}

func (s *IPSet) DestroySet(name string) error {
	s.mu.Lock()
	_, ok := s.sets[name]
	s.mu.Unlock()
	if !ok {
		return s.reject("destroy", name, fmt.Errorf("ipset: The set with the given name does not exist"))
	}
	if s.ipt != nil && s.ipt.ruleRefsSet(name) {
		return s.reject("destroy", name, fmt.Errorf("ipset: Set cannot be destroyed: it is in use by a kernel component"))
	}
	s.mu.Lock()
	delete(s.sets, name)
	s.mu.Unlock()
	return nil
}

func (s *IPSet) DestroyAllSets() error {
	for _, n := range s.names() {
		if err := s.DestroySet(n); err != nil {
			return err
		}
	}
	return nil
}

func (s *IPSet) names() []string {
	s.mu.Lock()
	defer s.mu.Unlock()
	var out []string
	for n := range s.sets {
		out = append(out, n)
	}
	sort.Strings(out)
	return out
}

func (s *IPSet) CreateSet(in *ipset.IPSet, ignoreExistErr bool) error {
	s.mu.Lock()
	defer s.mu.Unlock()
	if in.Name == "" || len(in.Name) > 31 {
		return s.reject("create", in.Name, fmt.Errorf("ipset: invalid set name %q", in.Name))
	}
	typ := in.SetType
	if typ == "" {
		typ = ipset.HashIPPort
	}
	if st, ok := s.sets[in.Name]; ok {
		if st.typ != typ {
			return s.reject("create", in.Name, fmt.Errorf("ipset: Set cannot be created: set with the same name already exists with a different type"))
		}
		if !ignoreExistErr {
			return s.reject("create", in.Name, fmt.Errorf("ipset: Set cannot be created: set with the same name already exists"))
		}
		return nil
	}
	s.sets[in.Name] = &set{name: in.Name, typ: typ, members: map[string]*member{}}
	return nil
}

func (s *IPSet) AddEntryWithOptions(e *ipset.Entry, in *ipset.IPSet, ignoreExistErr bool) error {
	s.mu.Lock()
	defer s.mu.Unlock()
	st, ok := s.sets[in.Name]
	if !ok {
		return s.reject("add", in.Name+" "+e.String(), fmt.Errorf("ipset: The set with the given name does not exist"))
	}
	c, err := canonEntry(st.typ, e.String())
	if err != nil {
		return s.reject("add", in.Name+" "+e.String(), err)
	}
	nomatch := false
	for _, o := range e.Options {
		if o == "nomatch" {
			nomatch = true
		}
	}
	if m, ok := st.members[c]; ok {
		if !ignoreExistErr {
			return s.reject("add", in.Name+" "+c, fmt.Errorf("ipset: Element cannot be added to the set: it's already added"))
		}
		// whether "add -exist" overwrites the nomatch flag of an existing element is not settled by the documentation;
		// the fake keeps the element as it is (the lenient choice: it cannot make a sync look non-idempotent)
		_ = m
		return nil
	}
	st.members[c] = &member{entry: c, nomatch: nomatch}
	return nil
}

func (s *IPSet) AddEntry(entry string, in *ipset.IPSet, ignoreExistErr bool) error {
	return s.AddEntryWithOptions(&ipset.Entry{IP: entry, Net: entry, SetType: in.SetType}, in, ignoreExistErr)
}

func (s *IPSet) DelEntryWithOptions(name, entry string, options ...string) error {
	s.mu.Lock()
	defer s.mu.Unlock()
	st, ok := s.sets[name]
	if !ok {
		return s.reject("del", name+" "+entry, fmt.Errorf("ipset: The set with the given name does not exist"))
	}
	c, err := canonEntry(st.typ, entry)
	if err != nil {
		return s.reject("del", name+" "+entry, err)
	}
	if _, ok := st.members[c]; !ok {
		return fmt.Errorf("ipset: Element cannot be deleted from the set: it's not added") // benign: callers delete blindly
	}
	delete(st.members, c)
	return nil
}

func (s *IPSet) DelEntry(entry string, name string) error { return s.DelEntryWithOptions(name, entry) }

func (s *IPSet) TestEntry(entry string, name string) (bool, error) {
	s.mu.Lock()
	defer s.mu.Unlock()
	st, ok := s.sets[name]
	if !ok {
		return false, fmt.Errorf("ipset: The set with the given name does not exist")
	}
	c, err := canonEntry(st.typ, entry)
	if err != nil {
		return false, err
	}
	_, ok = st.members[c]
	return ok, nil
}

func (s *IPSet) ListEntries(name string) ([]string, error) {
	s.mu.Lock()
	defer s.mu.Unlock()
	st, ok := s.sets[name]
	if !ok {
		return nil, fmt.Errorf("error listing set: %s, error: ipset: The set with the given name does not exist", name)
	}
	var out []string
	for _, m := range st.members {
		if m.nomatch {
			out = append(out, m.entry+" nomatch")
		} else {
			out = append(out, m.entry)
		}
	}
	sort.Strings(out)
	return out, nil
}

func (s *IPSet) ListSets() ([]string, error) { return s.names(), nil }
func (s *IPSet) GetVersion() (string, error) { return "7.17", nil }

func (s *IPSet) SaveAllSets() ([]byte, error) {
	return []byte(s.Dump(func(string) bool { return true })), nil
}

// Dump renders the selected sets canonically (sorted names and members).
func (s *IPSet) Dump(keep func(name string) bool) string {
	var b strings.Builder
	for _, n := range s.names() {
		if !keep(n) {
			continue
		}
		s.mu.Lock()
		st := s.sets[n]
		fmt.Fprintf(&b, "create %s %s\n", n, st.typ)
		s.mu.Unlock()
		ms, _ := s.ListEntries(n)
		for _, m := range ms {
			fmt.Fprintf(&b, "add %s %s\n", n, m)
		}
	}
	return b.String()
}

// SeedSet creates a set with members without checks (prior kernel state).
func (s *IPSet) SeedSet(name string, typ ipset.Type, members ...string) {
	s.mu.Lock()
	defer s.mu.Unlock()
	st := &set{name: name, typ: typ, members: map[string]*member{}}
	for _, m := range members {
		parts := strings.Fields(m)
		if c, err := canonEntry(typ, parts[0]); err == nil {
			st.members[c] = &member{entry: c, nomatch: len(parts) > 1 && parts[1] == "nomatch"}
		}
	}
	s.sets[name] = st
}

// Match evaluates a set match for an address (kernel semantics of hash:ip and hash:net incl. nomatch).
func (s *IPSet) Match(name string, ip net.IP) (bool, error) {
	s.mu.Lock()
	defer s.mu.Unlock()
	st, ok := s.sets[name]
	if !ok {
		return false, fmt.Errorf("set %s does not exist", name)
	}
	ip = ip.To4()
	switch st.typ {
	case ipset.HashIP:
		_, ok := st.members[ip.String()]
		return ok, nil
	case ipset.HashNet:
		// most specific prefix first
		for l := 32; l >= 1; l-- {
			n := &net.IPNet{IP: ip.Mask(net.CIDRMask(l, 32)), Mask: net.CIDRMask(l, 32)}
			key := n.String()
			if l == 32 {
				key = n.IP.String()
			}
			if m, ok := st.members[key]; ok {
				return !m.nomatch, nil
			}
		}
		return false, nil
	}
	return false, fmt.Errorf("set type %s not supported by the walker", st.typ)
}

var _ ipset.Interface = &IPSet{}
