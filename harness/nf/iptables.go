// Package nf is engine E3: strict, mutex-protected fakes of the iptables and ipset interfaces with kernel-faithful
// acceptance rules (atomic iptables-restore --noflush, chain/target/set existence, -X of referenced chains, ...)
// and a packet walker that evaluates new-connection packets over the saved filter table and sets.
package nf

import (
	"bytes"
	"fmt"
	"sort"
	"strings"
	"sync"

	utiliptables "tkestack.io/galaxy/pkg/utils/iptables"
)

var builtinTargets = map[string]bool{"ACCEPT": true, "DROP": true, "RETURN": true, "REJECT": true, "MARK": true, "DNAT": true, "SNAT": true,
	"MASQUERADE": true, "LOG": true, "QUEUE": true, "REDIRECT": true, "NOTRACK": true, "CT": true, "TCPMSS": true}

var builtinChains = map[string][]string{
	"filter": {"INPUT", "FORWARD", "OUTPUT"},
	"nat":    {"PREROUTING", "INPUT", "OUTPUT", "POSTROUTING"},
	"mangle": {"PREROUTING", "INPUT", "FORWARD", "OUTPUT", "POSTROUTING"},
}

// Rule is a canonicalised rule: the token list without the leading "-A chain".
type Rule []string

func (r Rule) String() string {
	var out []string
	for _, t := range r {
		if strings.ContainsAny(t, " \t") || t == "" {
			out = append(out, `"`+t+`"`)
		} else {
			out = append(out, t)
		}
	}
	return strings.Join(out, " ")
}

func (r Rule) Equal(o Rule) bool {
	if len(r) != len(o) {
		return false
	}
	for i := range r {
		if r[i] != o[i] {
			return false
		}
	}
	return true
}

// Target returns the -j target of the rule.
func (r Rule) Target() string {
	for i := 0; i+1 < len(r); i++ {
		if r[i] == "-j" || r[i] == "-g" {
			return r[i+1]
		}
	}
	return ""
}

// Sets returns the ipsets the rule matches on.
func (r Rule) Sets() []string {
	var out []string
	for i := 0; i+1 < len(r); i++ {
		if r[i] == "--match-set" {
			out = append(out, r[i+1])
		}
	}
	return out
}

type Chain struct {
	Name    string
	Builtin bool
	Policy  string
	Rules   []Rule
}

type Table struct {
	Chains map[string]*Chain
	Order  []string
}

func (t *Table) clone() *Table {
	n := &Table{Chains: map[string]*Chain{}, Order: append([]string{}, t.Order...)}
	for k, c := range t.Chains {
		cc := &Chain{Name: c.Name, Builtin: c.Builtin, Policy: c.Policy}
		for _, r := range c.Rules {
			cc.Rules = append(cc.Rules, append(Rule{}, r...))
		}
		n.Chains[k] = cc
	}
	return n
}

func newTable(name string) *Table {
	t := &Table{Chains: map[string]*Chain{}}
	for _, c := range builtinChains[name] {
		t.Chains[c] = &Chain{Name: c, Builtin: true, Policy: "ACCEPT"}
		t.Order = append(t.Order, c)
	}
	return t
}

// Rejected is a batch or command the strict fake refused.
type Rejected struct {
	Op   string
	Text string
	Err  string
}

// IPTables is the strict fake.
type IPTables struct {
	mu       sync.Mutex
	tables   map[string]*Table
	Sets     *IPSet // for --match-set existence checks (may be nil)
	Rejects  []Rejected
	Restores int
	// FailAt > 0 makes the FailAt-th modifying call from now on fail without any effect (an exec error of the iptables binary)
	FailAt int
	Failed []string
	// BeforeSave, if set, runs at the start of every SaveInto (iptables-save): the harness uses it to let something else happen
	// in the middle of a synchronisation pass
	BeforeSave func()
	// Benign marks rejections that galaxy provokes on purpose and handles (e.g. flushing a chain that does not exist)
}

func NewIPTables(sets *IPSet) *IPTables {
	f := &IPTables{tables: map[string]*Table{}, Sets: sets}
	for n := range builtinChains {
		f.tables[n] = newTable(n)
	}
	if sets != nil {
		sets.ipt = f
	}
	return f
}

// fault counts down FailAt on every modifying call; the call that reaches zero fails.
func (f *IPTables) fault(op string) error {
	f.mu.Lock()
	defer f.mu.Unlock()
	if f.FailAt <= 0 {
		return nil
	}
	f.FailAt--
	if f.FailAt == 0 {
		f.Failed = append(f.Failed, op)
		return fmt.Errorf("injected: %s: exit status 4: iptables: resource temporarily unavailable", op)
	}
	return nil
}

func (f *IPTables) table(name string) *Table {
	t, ok := f.tables[name]
	if !ok {
		t = newTable(name)
		f.tables[name] = t
	}
	return t
}

func (f *IPTables) reject(op, text string, err error) error {
	f.Rejects = append(f.Rejects, Rejected{Op: op, Text: text, Err: err.Error()})
	return err
}

// Tokenize splits a rule line honouring double quotes.
func Tokenize(line string) []string {
	var out []string
	var cur strings.Builder
	inQ, has := false, false
	for _, ch := range line {
		switch {
		case ch == '"':
			inQ = !inQ
			has = true
		case (ch == ' ' || ch == '\t') && !inQ:
			if has {
				out = append(out, cur.String())
				cur.Reset()
				has = false
			}
		default:
			cur.WriteRune(ch)
			has = true
		}
	}
	if has {
		out = append(out, cur.String())
	}
	return out
}

// canon canonicalises a rule the way the kernel prints it back: -s/-d get a prefix length, "-p all" disappears.
func canon(tokens []string) Rule {
	var out Rule
	for i := 0; i < len(tokens); i++ {
		t := tokens[i]
		if (t == "-s" || t == "-d") && i+1 < len(tokens) {
			v := tokens[i+1]
			if !strings.Contains(v, "/") {
				v += "/32"
			}
			out = append(out, t, v)
			i++
			continue
		}
		if t == "-p" && i+1 < len(tokens) && tokens[i+1] == "all" {
			i++
			continue
		}
		out = append(out, t)
	}
	return out
}

func errNoChain() error { return fmt.Errorf("iptables: No chain/target/match by that name.") }

func (f *IPTables) checkRuleRefs(t *Table, r Rule) error {
	tg := r.Target()
	if tg == "" {
		return nil
	}
	if !builtinTargets[tg] {
		if _, ok := t.Chains[tg]; !ok {
			return fmt.Errorf("iptables: No chain/target/match by that name (jump to missing chain %s).", tg)
		}
	}
	if f.Sets != nil {
		for _, s := range r.Sets() {
			if !f.Sets.exists(s) {
				return fmt.Errorf("iptables: Set %s doesn't exist.", s)
			}
		}
	}
	return nil
}

func referenced(t *Table, chain string) bool {
	for _, c := range t.Chains {
		for _, r := range c.Rules {
			if r.Target() == chain {
				return true
			}
		}
	}
	return false
}

// ---- utiliptables.Interface ----

func (f *IPTables) GetVersion() (string, error) { return "1.8.9", nil }
func (f *IPTables) IsIpv6() bool                { return false }

func (f *IPTables) EnsureChain(table utiliptables.Table, chain utiliptables.Chain) (bool, error) {
	if err := f.fault("EnsureChain"); err != nil {
		return false, err
	}
	f.mu.Lock()
	defer f.mu.Unlock()
	t := f.table(string(table))
	if _, ok := t.Chains[string(chain)]; ok {
		return true, nil
	}
	t.Chains[string(chain)] = &Chain{Name: string(chain)}
	t.Order = append(t.Order, string(chain))
	return false, nil
}

func (f *IPTables) FlushChain(table utiliptables.Table, chain utiliptables.Chain) error {
	if err := f.fault("FlushChain"); err != nil {
		return err
	}
	f.mu.Lock()
	defer f.mu.Unlock()
	t := f.table(string(table))
	c, ok := t.Chains[string(chain)]
	if !ok {
		return fmt.Errorf("error flushing chain %q: %v", chain, errNoChain()) // callers probe for this on purpose
	}
	c.Rules = nil
	return nil
}

func (f *IPTables) DeleteChain(table utiliptables.Table, chain utiliptables.Chain) error {
	if err := f.fault("DeleteChain"); err != nil {
		return err
	}
	f.mu.Lock()
	defer f.mu.Unlock()
	t := f.table(string(table))
	c, ok := t.Chains[string(chain)]
	if !ok {
		return f.reject("delete-chain", string(chain), errNoChain())
	}
	if c.Builtin {
		return f.reject("delete-chain", string(chain), fmt.Errorf("iptables: cannot delete a built-in chain"))
	}
	if len(c.Rules) > 0 {
		return f.reject("delete-chain", string(chain), fmt.Errorf("iptables: Directory not empty."))
	}
	if referenced(t, string(chain)) {
		return f.reject("delete-chain", string(chain), fmt.Errorf("iptables: Too many links."))
	}
	delete(t.Chains, string(chain))
	t.removeOrder(string(chain))
	return nil
}

func (t *Table) removeOrder(chain string) {
	for i, n := range t.Order {
		if n == chain {
			t.Order = append(t.Order[:i:i], t.Order[i+1:]...)
			return
		}
	}
}

func (f *IPTables) EnsureRule(position utiliptables.RulePosition, table utiliptables.Table, chain utiliptables.Chain, args ...string) (bool, error) {
	if err := f.fault("EnsureRule"); err != nil {
		return false, err
	}
	f.mu.Lock()
	defer f.mu.Unlock()
	t := f.table(string(table))
	c, ok := t.Chains[string(chain)]
	text := fmt.Sprintf("%s %s %s", position, chain, strings.Join(args, " "))
	if !ok {
		return false, f.reject("ensure-rule", text, errNoChain())
	}
	r := canon(args)
	for _, e := range c.Rules {
		if e.Equal(r) {
			return true, nil
		}
	}
	if err := f.checkRuleRefs(t, r); err != nil {
		return false, f.reject("ensure-rule", text, err)
	}
	if position == utiliptables.Prepend {
		c.Rules = append([]Rule{r}, c.Rules...)
	} else {
		c.Rules = append(c.Rules, r)
	}
	return false, nil
}

func (f *IPTables) DeleteRule(table utiliptables.Table, chain utiliptables.Chain, args ...string) error {
	if err := f.fault("DeleteRule"); err != nil {
		return err
	}
	f.mu.Lock()
	defer f.mu.Unlock()
	t := f.table(string(table))
	c, ok := t.Chains[string(chain)]
	if !ok {
		return nil // iptables -C fails with status 1, which the runner treats as "rule does not exist"
	}
	r := canon(args)
	for i, e := range c.Rules {
		if e.Equal(r) {
			c.Rules = append(c.Rules[:i:i], c.Rules[i+1:]...)
			return nil
		}
	}
	return nil
}

func (f *IPTables) ListRule(table utiliptables.Table, chain utiliptables.Chain, args ...string) ([]string, error) {
	f.mu.Lock()
	defer f.mu.Unlock()
	t := f.table(string(table))
	c, ok := t.Chains[string(chain)]
	if !ok {
		return nil, fmt.Errorf("error listing rule: exit status 1: %v", errNoChain())
	}
	var out []string
	if c.Builtin {
		out = append(out, fmt.Sprintf("-P %s %s", c.Name, c.Policy))
	} else {
		out = append(out, "-N "+c.Name)
	}
	for _, r := range c.Rules {
		out = append(out, fmt.Sprintf("-A %s %s", c.Name, r.String()))
	}
	out = append(out, "")
	return out, nil
}

func (f *IPTables) saveLocked(table string, buf *bytes.Buffer) {
	t := f.table(table)
	fmt.Fprintf(buf, "*%s\n", table)
	for _, n := range t.Order {
		c := t.Chains[n]
		if c.Builtin {
			fmt.Fprintf(buf, ":%s %s [0:0]\n", c.Name, c.Policy)
		} else {
			fmt.Fprintf(buf, ":%s - [0:0]\n", c.Name)
		}
	}
	for _, n := range t.Order {
		for _, r := range t.Chains[n].Rules {
			fmt.Fprintf(buf, "-A %s %s\n", n, r.String())
		}
	}
	buf.WriteString("COMMIT\n")
}

func (f *IPTables) SaveInto(table utiliptables.Table, buffer *bytes.Buffer) error {
	if hook := f.BeforeSave; hook != nil {
		hook()
	}
	f.mu.Lock()
	defer f.mu.Unlock()
	f.saveLocked(string(table), buffer)
	return nil
}

// Save returns the iptables-save text of a table.
func (f *IPTables) Save(table string) string {
	var b bytes.Buffer
	_ = f.SaveInto(utiliptables.Table(table), &b)
	return b.String()
}

func (f *IPTables) EnsurePolicy(table utiliptables.Table, chain utiliptables.Chain, policy string) error {
	f.mu.Lock()
	defer f.mu.Unlock()
	t := f.table(string(table))
	c, ok := t.Chains[string(chain)]
	if !ok || !c.Builtin {
		return f.reject("policy", string(chain), fmt.Errorf("iptables: Bad built-in chain name."))
	}
	c.Policy = policy
	return nil
}

func (f *IPTables) Restore(table utiliptables.Table, data []byte, flush utiliptables.FlushFlag, counters utiliptables.RestoreCountersFlag) error {
	return f.RestoreAll(data, flush, counters)
}

// RestoreAll applies an iptables-restore batch; each table section is atomic.
func (f *IPTables) RestoreAll(data []byte, flush utiliptables.FlushFlag, counters utiliptables.RestoreCountersFlag) error {
	if err := f.fault("RestoreAll"); err != nil {
		return err
	}
	f.mu.Lock()
	defer f.mu.Unlock()
	f.Restores++
	work := map[string]*Table{}
	var cur *Table
	curName := ""
	fail := func(lineNo int, line string, err error) error {
		return f.reject("restore", string(data), fmt.Errorf("iptables-restore: line %d failed (%s): %v", lineNo, line, err))
	}
	for i, raw := range strings.Split(string(data), "\n") {
		line := strings.TrimSpace(raw)
		if line == "" || strings.HasPrefix(line, "#") {
			continue
		}
		switch {
		case strings.HasPrefix(line, "*"):
			curName = line[1:]
			cur = f.table(curName).clone()
			if flush == utiliptables.FlushTables {
				cur = newTable(curName)
			}
		case line == "COMMIT":
			if cur == nil {
				return fail(i+1, line, fmt.Errorf("COMMIT without table"))
			}
			work[curName] = cur
			cur = nil
		case strings.HasPrefix(line, ":"):
			if cur == nil {
				return fail(i+1, line, fmt.Errorf("no table"))
			}
			parts := strings.Fields(line[1:])
			if len(parts) < 2 {
				return fail(i+1, line, fmt.Errorf("bad chain line"))
			}
			name, pol := parts[0], parts[1]
			c, ok := cur.Chains[name]
			if !ok {
				if pol != "-" {
					return fail(i+1, line, fmt.Errorf("policy on a user-defined chain"))
				}
				cur.Chains[name] = &Chain{Name: name}
				cur.Order = append(cur.Order, name)
			} else {
				c.Rules = nil // a declared chain is flushed
				if c.Builtin && pol != "-" {
					c.Policy = pol
				}
			}
		default:
			if cur == nil {
				return fail(i+1, line, fmt.Errorf("no table"))
			}
			tok := Tokenize(line)
			if len(tok) < 2 {
				return fail(i+1, line, fmt.Errorf("bad line"))
			}
			switch tok[0] {
			case "-A", "-I":
				c, ok := cur.Chains[tok[1]]
				if !ok {
					return fail(i+1, line, errNoChain())
				}
				r := canon(tok[2:])
				if err := f.checkRuleRefs(cur, r); err != nil {
					return fail(i+1, line, err)
				}
				if tok[0] == "-I" {
					c.Rules = append([]Rule{r}, c.Rules...)
				} else {
					c.Rules = append(c.Rules, r)
				}
			case "-D":
				c, ok := cur.Chains[tok[1]]
				if !ok {
					return fail(i+1, line, errNoChain())
				}
				r := canon(tok[2:])
				found := false
				for j, e := range c.Rules {
					if e.Equal(r) {
						c.Rules = append(c.Rules[:j:j], c.Rules[j+1:]...)
						found = true
						break
					}
				}
				if !found {
					return fail(i+1, line, fmt.Errorf("Bad rule (does a matching rule exist in that chain?)"))
				}
			case "-X":
				c, ok := cur.Chains[tok[1]]
				if !ok {
					return fail(i+1, line, errNoChain())
				}
				if c.Builtin {
					return fail(i+1, line, fmt.Errorf("cannot delete a built-in chain"))
				}
				if len(c.Rules) > 0 {
					return fail(i+1, line, fmt.Errorf("Directory not empty"))
				}
				if referenced(cur, tok[1]) {
					return fail(i+1, line, fmt.Errorf("Device or resource busy (chain %s is still referenced)", tok[1]))
				}
				delete(cur.Chains, tok[1])
				cur.removeOrder(tok[1])
			case "-F":
				c, ok := cur.Chains[tok[1]]
				if !ok {
					return fail(i+1, line, errNoChain())
				}
				c.Rules = nil
			case "-N":
				if _, ok := cur.Chains[tok[1]]; ok {
					return fail(i+1, line, fmt.Errorf("Chain already exists"))
				}
				cur.Chains[tok[1]] = &Chain{Name: tok[1]}
				cur.Order = append(cur.Order, tok[1])
			default:
				return fail(i+1, line, fmt.Errorf("unsupported command"))
			}
		}
	}
	if cur != nil {
		return f.reject("restore", string(data), fmt.Errorf("iptables-restore: missing COMMIT"))
	}
	for n, t := range work {
		f.tables[n] = t
	}
	return nil
}

// ---- inspection / seeding helpers for checks ----

// Snapshot returns a deep copy of a table.
func (f *IPTables) Snapshot(table string) *Table {
	f.mu.Lock()
	defer f.mu.Unlock()
	return f.table(table).clone()
}

// Seed adds a chain with rules without any checks (prior kernel state).
func (f *IPTables) Seed(table, chain string, rules ...string) {
	f.mu.Lock()
	defer f.mu.Unlock()
	t := f.table(table)
	c, ok := t.Chains[chain]
	if !ok {
		c = &Chain{Name: chain}
		t.Chains[chain] = c
		t.Order = append(t.Order, chain)
	}
	for _, r := range rules {
		c.Rules = append(c.Rules, canon(Tokenize(r)))
	}
}

// RuleRefsSet tells whether any rule references the set.
func (f *IPTables) ruleRefsSet(set string) bool {
	f.mu.Lock()
	defer f.mu.Unlock()
	for _, t := range f.tables {
		for _, c := range t.Chains {
			for _, r := range c.Rules {
				for _, s := range r.Sets() {
					if s == set {
						return true
					}
				}
			}
		}
	}
	return false
}

// Filtered renders the chains selected by keep (sorted by name) for comparisons.
func (t *Table) Filtered(keep func(chain string) bool) string {
	var names []string
	for n := range t.Chains {
		if keep(n) {
			names = append(names, n)
		}
	}
	sort.Strings(names)
	var b strings.Builder
	for _, n := range names {
		fmt.Fprintf(&b, ":%s\n", n)
		for _, r := range t.Chains[n].Rules {
			fmt.Fprintf(&b, "-A %s %s\n", n, r.String())
		}
	}
	return b.String()
}

var _ utiliptables.Interface = &IPTables{}
