package nf

import (
	"fmt"
	"net"
	"strconv"
	"strings"
)

// Packet is the first packet of a new connection.
type Packet struct {
	Hook  string // FORWARD | INPUT | OUTPUT
	Src   net.IP
	Dst   net.IP
	Proto string // tcp | udp
	DPort int
}

// Verdict walks the filter table; returns "ACCEPT" or "DROP".
func Verdict(t *Table, sets *IPSet, p Packet) (string, error) {
	v, err := walkChain(t, sets, p, p.Hook, 0)
	if err != nil {
		return "", err
	}
	if v == "" {
		c := t.Chains[p.Hook]
		if c != nil && c.Policy != "" {
			return c.Policy, nil
		}
		return "ACCEPT", nil
	}
	return v, nil
}

func walkChain(t *Table, sets *IPSet, p Packet, chain string, depth int) (string, error) {
	if depth > 16 {
		return "", fmt.Errorf("chain loop at %s", chain)
	}
	c, ok := t.Chains[chain]
	if !ok {
		return "", fmt.Errorf("jump to missing chain %s", chain)
	}
	for _, r := range c.Rules {
		m, err := matches(sets, p, r)
		if err != nil {
			return "", fmt.Errorf("chain %s rule %q: %v", chain, r.String(), err)
		}
		if !m {
			continue
		}
		switch tg := r.Target(); tg {
		case "ACCEPT", "DROP":
			return tg, nil
		case "REJECT":
			return "DROP", nil
		case "RETURN":
			return "", nil
		case "":
			continue
		case "MARK", "LOG":
			continue
		default:
			v, err := walkChain(t, sets, p, tg, depth+1)
			if err != nil {
				return "", err
			}
			if v != "" {
				return v, nil
			}
		}
	}
	return "", nil
}

func inCIDR(ip net.IP, cidr string) (bool, error) {
	if !strings.Contains(cidr, "/") {
		cidr += "/32"
	}
	_, n, err := net.ParseCIDR(cidr)
	if err != nil {
		return false, err
	}
	return n.Contains(ip), nil
}

func matches(sets *IPSet, p Packet, r Rule) (bool, error) {
	proto := ""
	for i := 0; i < len(r); i++ {
		switch r[i] {
		case "-j", "-g":
			i++
			// target options (e.g. --set-xmark) follow: stop match parsing
			return true, nil
		case "-s", "-d":
			neg := false
			v := r[i+1]
			if v == "!" {
				neg = true
				i++
				v = r[i+1]
			}
			ip := p.Src
			if r[i] == "-d" || (neg && r[i-1] == "-d") {
				ip = p.Dst
			}
			ok, err := inCIDR(ip, v)
			if err != nil {
				return false, err
			}
			if ok == neg {
				return false, nil
			}
			i++
		case "-p":
			proto = r[i+1]
			if proto != "all" && proto != p.Proto {
				return false, nil
			}
			i++
		case "-m":
			switch r[i+1] {
			case "comment":
				i += 3 // -m comment --comment X
			case "set":
				// -m set --match-set NAME dir
				if i+4 >= len(r) || r[i+2] != "--match-set" {
					return false, fmt.Errorf("unsupported set match")
				}
				dir := r[i+4]
				ip := p.Src
				if dir == "dst" {
					ip = p.Dst
				} else if dir != "src" {
					return false, fmt.Errorf("unsupported set direction %s", dir)
				}
				ok, err := sets.Match(r[i+3], ip)
				if err != nil {
					return false, err
				}
				if !ok {
					return false, nil
				}
				i += 4
			case "multiport":
				if i+3 >= len(r) || r[i+2] != "--dports" {
					return false, fmt.Errorf("unsupported multiport match")
				}
				if proto != "tcp" && proto != "udp" {
					return false, fmt.Errorf("multiport needs -p tcp/udp")
				}
				hit := false
				for _, ps := range strings.Split(r[i+3], ",") {
					if strings.Contains(ps, ":") {
						ab := strings.SplitN(ps, ":", 2)
						a, _ := strconv.Atoi(ab[0])
						b, _ := strconv.Atoi(ab[1])
						if p.DPort >= a && p.DPort <= b {
							hit = true
						}
						continue
					}
					n, err := strconv.Atoi(ps)
					if err != nil {
						return false, fmt.Errorf("bad port %q", ps)
					}
					if n == p.DPort {
						hit = true
					}
				}
				if !hit {
					return false, nil
				}
				i += 3
			case "conntrack":
				// --ctstate RELATED,ESTABLISHED never matches the first packet of a new connection
				if i+3 < len(r) && r[i+2] == "--ctstate" {
					if !strings.Contains(r[i+3], "NEW") {
						return false, nil
					}
					i += 3
				} else {
					return false, fmt.Errorf("unsupported conntrack match")
				}
			case "tcp", "udp":
				if i+3 < len(r) && r[i+2] == "--dport" {
					n, _ := strconv.Atoi(r[i+3])
					if n != p.DPort {
						return false, nil
					}
					i += 3
				} else {
					i++
				}
			default:
				return false, fmt.Errorf("unsupported match %s", r[i+1])
			}
		default:
			return false, fmt.Errorf("unsupported token %s", r[i])
		}
	}
	return true, nil
}
