#!/bin/sh
# tools_seed.sh <seed-dir-name> <property> [vcheck args]: applies /verif/seeded/<name>/patch.diff to /repo, runs the check, reverts.
set -u
name=$1; prop=$2; shift 2
git -C /repo status --short | grep -q . && { echo "/repo not clean"; exit 2; }
git -C /repo apply /verif/seeded/$name/patch.diff || exit 2
/verif/vcheck $prop --no-evidence "$@"; rc=$?
git -C /repo checkout -- .
echo "seed=$name property=$prop exit=$rc"
