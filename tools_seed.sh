#!/bin/sh
# tools_seed.sh <seed-dir-name> <property> [vcheck args]: applies /verif/seeded/<name>/patch.diff to /repo, runs the check, reverts.
set -u
name=$1; prop=$2; shift 2
git -C /repo status --short | grep -q . && { echo "/repo not clean"; exit 2; }
p=/verif/seeded/$name/patch.diff; [ -f /verif/seeded/$name/patch-current.diff ] && p=/verif/seeded/$name/patch-current.diff
git -C /repo apply $p || exit 2
/verif/vcheck $prop --no-evidence "$@"; rc=$?
git -C /repo checkout -- .
echo "seed=$name property=$prop exit=$rc"
