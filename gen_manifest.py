#!/usr/bin/env python3
"""Regenerates MANIFEST.json from checks_config.py + manifest_texts.py (kept in sync with what is really built)."""
import json, os, sys
ROOT = os.path.dirname(os.path.abspath(__file__))
sys.path.insert(0, ROOT)
from checks_config import CHECKS
from manifest_texts import TEXTS, NOT_APPLICABLE, ENGINES, HOOK_COMMITS

checks = []
for pid in sorted(CHECKS):
    cfg = CHECKS[pid]
    tx = TEXTS[pid]
    checks.append({
        "property_id": pid,
        "quick_cmd": "./vcheck %s --tier quick" % pid,
        "thorough_cmd": "./vcheck %s --tier thorough" % pid,
        "evidence_file": "/verif/evidence/%s.json" % pid,
        "replay_cmd_template": "./vcheck %s --replay {path}" % pid,
        "engine": tx["engine"],
        "level_claimed": {"category": cfg["level"], "text": tx["level_text"], "design_ref": tx["design_ref"]},
        "level_note": tx["level_note"],
        "technique": tx["technique"],
    })
props = [json.loads(l)["id"] for l in open(os.path.join(ROOT, "properties.jsonl"))]
na = [{"property_id": p, "reason": NOT_APPLICABLE.get(p, "check not built yet in this round; see DESIGN.md for the planned generated check")}
      for p in props if p not in CHECKS]
m = {
    "version": 1,
    "setup_cmd": "cd /verif/harness && export GOFLAGS=-mod=mod GOPROXY=off GOSUMDB=off GOTOOLCHAIN=local && go test -tags verif -count=1 -exec /bin/true ./... && go test -tags verif -race -count=1 -exec /bin/true ./racesim && cd /verif && ./setup_extra.sh",
    "hooks": {
        "guard": "verif",
        "enable": "go build tag: go test -tags verif (harness module /verif/harness, replace tkestack.io/galaxy => /repo)",
        "baseline_off_cmd": "cd /repo && go test -mod=mod -vet=off -count=1 -timeout 25m ./...",
        "source_commits": HOOK_COMMITS,
        "add_only": True,
    },
    "engines": ENGINES,
    "checks": checks,
    "not_applicable": na,
    "notes": "Technique family: property-based testing and fuzzing (pgregory.net/rapid v1.3.0 + Go native fuzzing). "
             "Driver: /verif/vcheck. Known findings: /verif/known_findings.txt. Exit 2 = inconclusive.",
}
json.dump(m, open(os.path.join(ROOT, "MANIFEST.json"), "w"), indent=1)
print("MANIFEST.json: %d checks, %d not claimed" % (len(checks), len(na)))
