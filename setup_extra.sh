#!/bin/sh
# extra offline setup steps (model-vs-kernel differential of the strict netfilter fake etc.); must never fail the setup
exit 0
