#!/bin/sh
# Extra offline setup: cross-check the strict iptables fake (harness/nf) against the real iptables-restore in a private network
# namespace. Informational: never fails the setup (skipped where namespaces/iptables are unavailable).
export GOFLAGS=-mod=mod GOPROXY=off GOSUMDB=off GOTOOLCHAIN=local
mkdir -p /verif/evidence
cd /verif/harness && go test -tags verif ./nf -run TestKernelDiff -rapid.checks=150 -rapid.seed=1 -count=1 > /tmp/nf_kernel_diff.$$ 2>&1
echo "nf fake vs kernel differential: exit $?" 
tail -3 /tmp/nf_kernel_diff.$$; rm -f /tmp/nf_kernel_diff.$$
exit 0
