#!/usr/bin/env python3
"""tools_seed_prompt.py <property> <worktree-name> [extra hint]: creates a scratch worktree of /repo under /tmp/seed and a prompt file for a
sub-agent that must seed a property-breaking change there (the prompt contains nothing from /verif but the property text)."""
import json, sys, subprocess, os
pid, wt = sys.argv[1], sys.argv[2]
extra = sys.argv[3] if len(sys.argv) > 3 else ""
props = {json.loads(l)['id']: json.loads(l) for l in open('/verif/properties.jsonl')}
p = props[pid]
os.makedirs('/tmp/seed', exist_ok=True)
subprocess.check_call(['git', '-C', '/repo', 'worktree', 'add', '-q', '--detach', '/tmp/seed/' + wt, 'HEAD'])
txt = f"""You are helping evaluate a verification effort by playing the role of a developer who introduces a subtle regression.

Work ONLY inside the git worktree /tmp/seed/{wt} (a checkout of the Go project tkestack/galaxy: a Kubernetes networking daemon, CNI plugins and a scheduler-extender floating-IP IPAM). Do not read or write anything under /verif or /repo. Every shell command needs: export GOFLAGS=-mod=mod GOPROXY=off GOSUMDB=off GOTOOLCHAIN=local  (no network is available; do not try to download anything).

The property under attack:
Title: {p['title']}
Statement: {p['statement']}
Quantified over: {p['quantifier']['text']}
Code anchored in: {', '.join(p['anchors']['files'])}

Your task: make ONE small, realistic source change (the kind of thing a refactoring, an "optimisation" or a merge mistake produces) in the non-test Go code of /tmp/seed/{wt} that BREAKS this property, while
 (1) the project still compiles:  cd /tmp/seed/{wt} && go build ./...
 (2) the existing tests of the packages you touched still pass exactly as before your change (some tests in this repo fail or panic even without any change - e.g. in pkg/ipam/schedulerplugin the test binary panics late in the run in a dynamic-informer test; compare the set of passing tests before and after with `go test -vet=off -count=1 -json` on the touched packages; no previously passing test may fail), and
 (3) the breakage needs something SPECIFIC to manifest - a particular interleaving of two operations, a crash or API error at a particular point, a multi-step sequence, an unusual but valid input, or two cooperating sites that each look fine alone. Do NOT make a change that the most ordinary use would expose immediately.
{extra}
Do NOT use `git stash` (the stash is shared between sibling worktrees; use `git diff > p.diff; git apply -R p.diff; ...; git apply p.diff` instead). Do not touch *_test.go files of the project, do not add build tags, do not edit files named zz_verif_hooks.go.

Deliver, inside /tmp/seed/{wt}/SEED/ :
 - patch.diff : `git diff` of your change (source only), applying cleanly with `git apply` to a clean checkout of HEAD
 - a demonstration: a NEW Go test file (put a copy in SEED/ and tell me the package directory it must be placed in) that FAILS with your change and PASSES without it. Run it both ways and report the commands and outputs. The demonstration may use the package's existing test helpers and unexported functions.
 - README.md : which property it breaks, what exactly it needs in order to manifest, why existing tests do not notice.
Leave the worktree with your change applied and the demo test file in place. Keep the change minimal (ideally 1-10 lines). Report back a concise summary: the diff, the trigger, and the two demo runs."""
open(f'/tmp/seed/prompt_{wt}.txt', 'w').write(txt)
print('/tmp/seed/prompt_%s.txt' % wt)
