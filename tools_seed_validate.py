#!/usr/bin/env python3
"""Validates every seeded change under /verif/seeded in a scratch worktree of /repo (never in /repo itself):
patch applies, project builds, the baseline tests of the touched package still pass, the demonstration fails with the
change and passes without it. Writes seeded/<id>/validation.json."""
import json, os, subprocess, sys, glob, shutil
sys.path.insert(0, '/verif')
from seeds_index import SEEDS  # noqa
def patch_of(d):
    """the change as ported to the current HEAD of /repo if the original no longer applies"""
    return d + "/patch-current.diff" if os.path.exists(d + "/patch-current.diff") else d + "/patch.diff"

env = dict(os.environ, GOFLAGS="-mod=mod", GOPROXY="off", GOSUMDB="off", GOTOOLCHAIN="local")
base = json.load(open("/root/.vp/BASELINE.json"))["stable_pass"]
def sh(cmd, cwd):
    p = subprocess.run(cmd, cwd=cwd, env=env, shell=True, stdout=subprocess.PIPE, stderr=subprocess.STDOUT, text=True)
    return p.returncode, p.stdout
def main():
  only = sys.argv[1:]
  for sid, (prop, pkg) in SEEDS.items():
    if only and sid not in only: continue
    d = "/verif/seeded/" + sid
    if os.path.exists(d + "/NOT-PORTABLE.md"):
        print(sid, "skipped: not portable to the current HEAD (validation.json keeps the result obtained on the tree it was written for)"); continue
    wt = "/tmp/sv_" + sid
    subprocess.run(["git", "-C", "/repo", "worktree", "remove", "--force", wt], stdout=subprocess.DEVNULL, stderr=subprocess.DEVNULL)
    subprocess.check_call(["git", "-C", "/repo", "worktree", "add", "-q", "--detach", wt, "HEAD"])
    res = {"seed": sid, "property": prop, "package": pkg}
    try:
        demos = [f for f in glob.glob(d + "/*_test.go")]
        for f in demos: shutil.copy(f, os.path.join(wt, pkg))
        rc, out = sh("git apply %s" % patch_of(d), wt); res["applies"] = rc == 0
        rc, out = sh("go build ./...", wt); res["builds"] = rc == 0
        run = "go test %s-vet=off -count=1 -run 'Seed' ./%s/" % ("-race " if prop == "C19" else "", pkg)
        rc, out = sh(run, wt); res["demo_with_change_fails"] = rc != 0; res["demo_with_change_tail"] = out[-600:]
        # baseline of the touched package with the change (demo files removed)
        for f in demos: os.remove(os.path.join(wt, pkg, os.path.basename(f)))
        touched = {pkg}
        for l in open(patch_of(d)):
            if l.startswith("+++ b/") and l.strip().endswith(".go"):
                touched.add(os.path.dirname(l[6:].strip()))
        res["touched_packages"] = sorted(touched)
        rc, out = sh("go test -mod=mod -json -vet=off -count=1 " + " ".join("./%s/" % t for t in sorted(touched)), wt)
        passed = set()
        for line in out.splitlines():
            try:
                e = json.loads(line)
                if e.get("Action") == "pass" and e.get("Test"): passed.add("%s::%s" % (e["Package"], e["Test"]))
            except Exception: pass
        want = {b for b in base if b.split("::")[0] in {"tkestack.io/galaxy/" + t for t in touched}}
        res["baseline_missing_with_change"] = sorted(want - passed)
        for f in demos: shutil.copy(f, os.path.join(wt, pkg))
        rc, out = sh("git apply -R %s" % patch_of(d), wt)
        rc, out = sh(run, wt); res["demo_without_change_passes"] = rc == 0; res["demo_without_change_tail"] = out[-300:]
        res["run"] = run
    finally:
        subprocess.run(["git", "-C", "/repo", "worktree", "remove", "--force", wt], stdout=subprocess.DEVNULL, stderr=subprocess.DEVNULL)
    res["valid"] = bool(res.get("applies") and res.get("builds") and res.get("demo_with_change_fails") and res.get("demo_without_change_passes") and not res.get("baseline_missing_with_change"))
    json.dump(res, open(d + "/validation.json", "w"), indent=1)
    print(sid, "valid" if res["valid"] else "INVALID", {k: v for k, v in res.items() if k in ("applies", "builds", "demo_with_change_fails", "demo_without_change_passes", "baseline_missing_with_change")})
main()
subprocess.run(["git", "-C", "/repo", "worktree", "prune"])
